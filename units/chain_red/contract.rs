// Contract overlay for one reduction step of ChainReducer (yui-homology/src/utils/chain_reducer.rs): find pivots in d_i, permute
// them to the leading block, replace d_i by the Schur complement and cut the pivot rows / columns out of the neighbouring
// differentials.  Property C08 ("chain reduction is a homotopy equivalence with correct transfer maps"), the algebraic core:
//   GIVEN the pivot finder's contract (the permuted matrix has a valid triangular leading block: the subject of C11) and the Schur
//   routine's contract (proved in unit schur, copied here by //@contract-of), one call of reduce_at_spec keeps
//       d_{j+1} d_j = 0  for every j        (the result is again a chain complex)
//   whatever the degree i, the pivot type and the sizes.  Matrices are abstract block matrices (prelude/bx.rs).
use vstd::prelude::*;
verus! {
//@include prelude/rt.rs
//@include prelude/er.rs
//@include prelude/bx.rs
//@source yui-homology/src/utils/chain_reducer.rs
//@include units/schur/model.inc
//@include units/chain_vecs/spec.inc

impl Schur {
//@contract-of units/schur/contract.rs from_partial_triangular variant=B
    pub fn disassemble(self) -> (r: (SpMat, Option<Trans>, Option<Trans>)) ensures r.0 == self.s, r.1 == self.t_src, r.2 == self.t_tgt,
    //@body impl/Schur/disassemble source=yui-matrix/src/sparse/schur.rs
    //@+ sig
    //@| fn disassemble(self) -> (SpMat<R>, Option<Trans<R>>, Option<Trans<R>>)
}

// ---------------------------------------------------------------- models
/// a grading (I: GridDeg): abstract integers with + and -
#[derive(Clone, Copy)]
pub struct Deg { pub g: Ghost<int> }
pub fn dadd_(a: Deg, b: Deg) -> (r: Deg) ensures r.g@ == a.g@ + b.g@ { Deg { g: Ghost(a.g@ + b.g@) } }
pub fn dsub_(a: Deg, b: Deg) -> (r: Deg) ensures r.g@ == a.g@ - b.g@ { Deg { g: Ghost(a.g@ - b.g@) } }
/// HashMap<I, SpMat<R>> / HashMap<I, Trans<R>> / HashMap<I, Vec<SpVec<R>>>  (ASSUMED std contract; values by their abstract content)
pub struct MatMap { pub m: Ghost<Map<int, int>> }
pub struct TransMap { pub m: Ghost<Map<int, (int, int)>> }
pub struct VecsMap { pub m: Ghost<Map<int, Seq<int>>> }
impl MatMap {
    #[verifier::external_body] pub fn get(&self, i: &Deg) -> (r: Option<&SpMat>) ensures r.is_some() == self.m@.dom().contains(i.g@), r.is_some() ==> r.unwrap().m@ == self.m@[i.g@] { unimplemented!() }
    #[verifier::external_body] pub fn insert(&mut self, i: Deg, a: SpMat) -> (o: Option<SpMat>) ensures final(self).m@ == old(self).m@.insert(i.g@, a.m@) { unimplemented!() }
    #[verifier::external_body] pub fn contains_key(&self, i: &Deg) -> (r: bool) ensures r == self.m@.dom().contains(i.g@) { unimplemented!() }
}
impl TransMap {
    #[verifier::external_body] pub fn insert(&mut self, i: Deg, t: Trans) -> (o: Option<Trans>) ensures final(self).m@ == old(self).m@.insert(i.g@, (t.f@, t.b@)) { unimplemented!() }
    #[verifier::external_body] pub fn contains_key(&self, i: &Deg) -> (r: bool) ensures r == self.m@.dom().contains(i.g@) { unimplemented!() }
    #[verifier::external_body] pub fn get_mut(&mut self, i: &Deg) -> (r: Option<&mut Trans>)
        ensures r.is_some() == old(self).m@.dom().contains(i.g@),
            r.is_some() ==> ((r.unwrap().f@, r.unwrap().b@) == old(self).m@[i.g@] && final(self).m@ == old(self).m@.insert(i.g@, ((*final(r.unwrap())).f@, (*final(r.unwrap())).b@))),
            r.is_none() ==> final(self).m@ == old(self).m@,
    { unimplemented!() }
}
/// permutations (sprs::PermOwned / PermView)
pub struct PermOwned { pub p: Ghost<int> }
pub struct PermView { pub p: Ghost<int> }
impl PermOwned {
    #[verifier::external_body] pub fn view(&self) -> (r: PermView) ensures r.p@ == self.p@ { unimplemented!() }
    #[verifier::external_body] pub fn dim(&self) -> (r: usize) ensures r == pdim(self.p@) { unimplemented!() }
}
impl SpMat {
    #[verifier::external_body] pub fn is_zero(&self) -> (r: bool) ensures r == (self.m@ == mzero(nr(self.m@), nc(self.m@))) { unimplemented!() }
    /// entry (i, j) moves to (p(i), q(j)):  P a Q^-1
    #[verifier::external_body] pub fn permute(&self, p: PermView, q: PermView) -> (r: SpMat)
        requires pdim(p.p@) == nr(self.m@), pdim(q.p@) == nc(self.m@)
        ensures r.m@ == mmul(mmul(pm(p.p@), self.m@), pmi(q.p@)), nr(r.m@) == nr(self.m@), nc(r.m@) == nc(self.m@) { unimplemented!() }
}
impl Trans {
    #[verifier::external_body] pub fn id(n: usize) -> (r: Trans) ensures r.f@ == mid(n as int), r.b@ == mid(n as int) { unimplemented!() }
    /// proved in unit trans (dimension-free): append_perm = append(row-perm, col-perm), merge composes
    #[verifier::external_body] pub fn append_perm(&mut self, p: PermView) ensures final(self).f@ == mmul(pm(p.p@), old(self).f@), final(self).b@ == mmul(old(self).b@, pmi(p.p@)) { unimplemented!() }
    #[verifier::external_body] pub fn merge(&mut self, other: Trans) ensures final(self).f@ == mmul(other.f@, old(self).f@), final(self).b@ == mmul(old(self).b@, other.b@) { unimplemented!() }
}
#[derive(PartialEq, Eq, Structural, Clone, Copy)]
//@item enum/PivotType source=yui-matrix/src/sparse/pivot.rs
/// PivotCondition (carries an f64 weight): opaque here
#[derive(Clone, Copy)]
pub struct PivotCondition { pub c: Ghost<int> }
pub open spec fn tri_of(pt: PivotType) -> TriangularType { match pt { PivotType::Rows => TriangularType::Upper, PivotType::Cols => TriangularType::Lower } }
/// the leading r x r block of mm, however mm is cut into four blocks, is a valid pivot block for t
pub open spec fn pivot_block_ok(t: TriangularType, mm: int, r: int) -> bool {
    forall|a: int, b: int, c: int, d: int| mm == mstack(mconcat(a, b), mconcat(c, d)) && nr(a) == r && nc(a) == r ==> tri_ok(t, a)
}
/// ASSUMED (find_pivots + perms_by_pivots: property C11): r pivots, permutations moving them to the leading block, which is triangular
#[verifier::external_body] pub fn pivots(a: &SpMat, piv_type: PivotType, pivot_cond: PivotCondition) -> (res: (PermOwned, PermOwned, usize))
    ensures res.2 <= nr(a.m@), res.2 <= nc(a.m@), pdim(res.0.p@) == nr(a.m@), pdim(res.1.p@) == nc(a.m@),
        pivot_block_ok(tri_of(piv_type), mmul(mmul(pm(res.0.p@), a.m@), pmi(res.1.p@)), res.2 as int),
{ unimplemented!() }
/// ASSUMED (SpMat::extract with an index closure): rows r.. of P a  /  columns r.. of a P^-1
#[verifier::external_body] pub fn reduce_mat_rows(a: &SpMat, p: &PermOwned, r: usize) -> (res: SpMat)
    requires pdim(p.p@) == nr(a.m@), r <= nr(a.m@) ensures res.m@ == mrows(mmul(pm(p.p@), a.m@), r as int, nr(a.m@)) { unimplemented!() }
#[verifier::external_body] pub fn reduce_mat_cols(a: &SpMat, p: &PermOwned, r: usize) -> (res: SpMat)
    requires pdim(p.p@) == nc(a.m@), r <= nc(a.m@) ensures res.m@ == mcols(mmul(a.m@, pmi(p.p@)), r as int, nc(a.m@)) { unimplemented!() }

//@item struct/ChainReducer subst=HashMap<I,SpMat<R>>:MatMap,HashMap<I,Trans<R>>:TransMap,HashMap<I,Vec<SpVec<R>>>:VecsMap,Vec<I>:Vec<Deg>,I:Deg

// ---------------------------------------------------------------- specification
/// d_{j+d} d_j = 0 wherever both are set, with matching sizes
pub open spec fn chain_ok(ms: Map<int, int>, d: int) -> bool {
    forall|j: int| ms.dom().contains(j) && ms.dom().contains(j + d) ==>
        nc(#[trigger] ms[j + d]) == nr(ms[j]) && mmul(ms[j + d], ms[j]) == mzero(nr(ms[j + d]), nc(ms[j]))
}

// ---- the four products that change ----
/// S v = 0 for v = the non-pivot rows of Q a0, when a1 a0 = 0   (A' = P a1 Q^-1, ft A' = [0 | S])
pub proof fn lemma_s_a0(a1: int, a0: int, p: int, q: int, r: int, s: int, ft: int, bs: int)
    requires pdim(p) == nr(a1), pdim(q) == nc(a1), nc(a1) == nr(a0), mmul(a1, a0) == mzero(nr(a1), nc(a0)),
        elim_maps(mmul(mmul(pm(p), a1), pmi(q)), s, r, ft, bs),
    ensures mmul(s, mrows(mmul(pm(q), a0), r, nr(a0))) == mzero(nr(s), nc(a0)), nc(s) == nr(a0) - r, nr(mrows(mmul(pm(q), a0), r, nr(a0))) == nr(a0) - r,
        nc(mrows(mmul(pm(q), a0), r, nr(a0))) == nc(a0),
{
    bx_dims_all();
    let ap = mmul(mmul(pm(p), a1), pmi(q)); let w = mmul(pm(q), a0); let n = nr(a0); let m = nr(a1);
    bx_perm(p); bx_perm(q); bx_dims(pm(p), a1, 0, 0, 0, 0, 0); bx_dims(mmul(pm(p), a1), pmi(q), 0, 0, 0, 0, 0); bx_dims(pm(q), a0, r, n, 0, 0, 0); bx_dims(w, 0, 0, r, 0, 0, 0); bx_dims(w, 0, r, n, 0, 0, 0);
    // A' w = P a1 Q^-1 Q a0 = P (a1 a0) = 0
    bx_assoc(mmul(pm(p), a1), pmi(q), w); bx_assoc(pmi(q), pm(q), a0); bx_id(a0); bx_assoc(pm(p), a1, a0); bx_zero_mul(pm(p), m, nc(a0));
    assert(mmul(ap, w) == mzero(m, nc(a0)));
    // [0 | S] w = ft (A' w) = 0,  and  [0 | S] [u ; v] = 0 u + S v = S v
    bx_assoc(ft, ap, w); bx_zero_mul(ft, m, nc(a0));
    let (u, v) = (mrows(w, 0, r), mrows(w, r, n));
    bx_split(w, r); bx_concat_stack(mzero(m - r, r), s, u, v); bx_zero_mul(u, m - r, r); bx_dims(s, v, 0, 0, 0, 0, 0); bx_add_zero(mmul(s, v));
}
/// a2' S = 0 for a2' = the non-pivot columns of a2 P^-1, when a2 a1 = 0
pub proof fn lemma_a2_s(a2: int, a1: int, p: int, q: int, r: int, s: int, ft: int, bs: int)
    requires pdim(p) == nr(a1), pdim(q) == nc(a1), nc(a2) == nr(a1), mmul(a2, a1) == mzero(nr(a2), nc(a1)),
        elim_maps(mmul(mmul(pm(p), a1), pmi(q)), s, r, ft, bs),
    ensures mmul(mcols(mmul(a2, pmi(p)), r, nc(a2)), s) == mzero(nr(a2), nc(s)), nr(s) == nc(a2) - r, nc(mcols(mmul(a2, pmi(p)), r, nc(a2))) == nc(a2) - r,
        nr(mcols(mmul(a2, pmi(p)), r, nc(a2))) == nr(a2),
{
    bx_dims_all();
    let ap = mmul(mmul(pm(p), a1), pmi(q)); let z = mmul(a2, pmi(p)); let n = nc(a1); let m = nr(a1);
    bx_perm(p); bx_perm(q); bx_dims(pm(p), a1, 0, 0, 0, 0, 0); bx_dims(mmul(pm(p), a1), pmi(q), 0, 0, 0, 0, 0); bx_dims(a2, pmi(p), r, m, 0, 0, 0); bx_dims(z, 0, 0, r, 0, 0, 0); bx_dims(z, 0, r, m, 0, 0, 0);
    // z A' = a2 P^-1 P a1 Q^-1 = (a2 a1) Q^-1 = 0
    bx_assoc(mmul(pm(p), a1), pmi(q), 0); bx_assoc(z, mmul(pm(p), a1), pmi(q)); bx_assoc(z, pm(p), a1); bx_assoc(a2, pmi(p), pm(p)); bx_id(a2); bx_zero_mul(pmi(q), nr(a2), n);
    assert(mmul(z, ap) == mzero(nr(a2), n));
    // z (A' bs) = z [0 ; S] = z1 0 + z2 S = z2 S,  and  (z A') bs = 0
    bx_assoc(z, ap, bs); bx_zero_mul(bs, nr(a2), n);
    let (z1, z2) = (mcols(z, 0, r), mcols(z, r, m));
    bx_split(z, r); bx_concat_stack(z1, z2, mzero(r, n - r), s); bx_zero_mul(z1, r, n - r); bx_dims(z2, s, 0, 0, 0, 0, 0); bx_add_zero(mmul(z2, s));
}
/// a0' x = 0 when a0 x = 0;   y a2' = 0 when y a2 = 0
pub proof fn lemma_outer(a0: int, x: int, q: int, a2: int, y: int, p: int, r: int)
    requires 0 <= r,
    ensures (pdim(q) == nr(a0) && r <= nr(a0) && nc(a0) == nr(x) && mmul(a0, x) == mzero(nr(a0), nc(x))) ==>
            (mmul(mrows(mmul(pm(q), a0), r, nr(a0)), x) == mzero(nr(a0) - r, nc(x)) && nc(mrows(mmul(pm(q), a0), r, nr(a0))) == nr(x) && nr(mrows(mmul(pm(q), a0), r, nr(a0))) == nr(a0) - r),
        (pdim(p) == nc(a2) && r <= nc(a2) && nc(y) == nr(a2) && mmul(y, a2) == mzero(nr(y), nc(a2))) ==>
            (mmul(y, mcols(mmul(a2, pmi(p)), r, nc(a2))) == mzero(nr(y), nc(a2) - r) && nr(mcols(mmul(a2, pmi(p)), r, nc(a2))) == nc(y) && nc(mcols(mmul(a2, pmi(p)), r, nc(a2))) == nc(a2) - r),
{
    bx_perm(q); bx_perm(p);
    bx_dims(pm(q), a0, r, nr(a0), 0, 0, 0); bx_dims(mmul(pm(q), a0), 0, r, nr(a0), 0, 0, 0);
    bx_rows_mul(mmul(pm(q), a0), x, r, nr(a0)); bx_assoc(pm(q), a0, x); bx_zero_mul(pm(q), nr(a0), nc(x)); bx_sub_zero(nr(a0), nc(x), r, nr(a0));
    bx_dims(a2, pmi(p), r, nc(a2), 0, 0, 0); bx_dims(mmul(a2, pmi(p)), 0, r, nc(a2), 0, 0, 0);
    bx_cols_mul(y, mmul(a2, pmi(p)), r, nc(a2)); bx_assoc(y, a2, pmi(p)); bx_zero_mul(pmi(p), nr(y), nc(a2)); bx_sub_zero(nr(y), nc(a2), r, nc(a2));
}
/// the new family of differentials is again a complex
pub proof fn lemma_chain_step(m0: Map<int, int>, d: int, i: int, p: int, q: int, r: int, s: int, ft: int, bs: int)
    requires chain_ok(m0, d), d != 0, m0.dom().contains(i), pdim(p) == nr(m0[i]), pdim(q) == nc(m0[i]),
        elim_maps(mmul(mmul(pm(p), m0[i]), pmi(q)), s, r, ft, bs),
    ensures ({
        let (i0, i2) = (i - d, i + d);
        let m1 = if m0.dom().contains(i0) { m0.insert(i0, mrows(mmul(pm(q), m0[i0]), r, nr(m0[i0]))) } else { m0 };
        let m2 = m1.insert(i, s);
        let m3 = if m0.dom().contains(i2) { m2.insert(i2, mcols(mmul(m0[i2], pmi(p)), r, nc(m0[i2]))) } else { m2 };
        chain_ok(m3, d)
    }),
{
    let (i0, i2) = (i - d, i + d); let a1 = m0[i];
    let m1 = if m0.dom().contains(i0) { m0.insert(i0, mrows(mmul(pm(q), m0[i0]), r, nr(m0[i0]))) } else { m0 };
    let m2 = m1.insert(i, s);
    let m3 = if m0.dom().contains(i2) { m2.insert(i2, mcols(mmul(m0[i2], pmi(p)), r, nc(m0[i2]))) } else { m2 };
    bx_perm(p); bx_perm(q); bx_dims(pm(p), a1, 0, 0, 0, 0, 0); bx_dims(mmul(pm(p), a1), pmi(q), 0, 0, 0, 0, 0);
    assert forall|j: int| m3.dom().contains(j) && m3.dom().contains(j + d) implies
        nc(#[trigger] m3[j + d]) == nr(m3[j]) && mmul(m3[j + d], m3[j]) == mzero(nr(m3[j + d]), nc(m3[j])) by {
        assert(m0.dom().contains(j) && m0.dom().contains(j + d));
        assert(nc(m0[j + d]) == nr(m0[j]) && mmul(m0[j + d], m0[j]) == mzero(nr(m0[j + d]), nc(m0[j])));
        if j == i0 { lemma_s_a0(a1, m0[i0], p, q, r, s, ft, bs); }
        else if j == i { lemma_a2_s(m0[i2], a1, p, q, r, s, ft, bs); }
        else if j + d == i0 { assert(nc(m0[i]) == nr(m0[i0])) by { assert(m0.dom().contains(i0) && m0.dom().contains(i0 + d)); } lemma_outer(m0[i0], m0[j], q, 0, 0, p, r); }
        else if j == i2 { assert(nc(m0[i2]) == nr(m0[i])) by { assert(m0.dom().contains(i) && m0.dom().contains(i + d)); } lemma_outer(0, 0, q, m0[i2], m0[j + d], p, r); }
        else { }
    }
}

// ================================================================ transfer maps
/// (fs (Pm F)) ((B Pm^-1) bs) = fs bs   when F B = I_n
pub proof fn lemma_fb(f: int, b: int, pp: int, fs: int, bs: int, n: int)
    requires mmul(f, b) == mid(n), pdim(pp) == n, nr(f) == n, nc(b) == n, nc(fs) == n, nr(bs) == n
    ensures mmul(mmul(fs, mmul(pm(pp), f)), mmul(mmul(b, pmi(pp)), bs)) == mmul(fs, bs)
{
    bx_perm(pp);
    let (x, y) = (mmul(pm(pp), f), mmul(b, pmi(pp)));
    // x y = Pm (F B) Pm^-1 = I
    bx_assoc(pm(pp), f, y); bx_assoc(f, b, pmi(pp)); bx_id(pmi(pp)); bx_dims(pm(pp), f, 0, 0, 0, 0, 0); bx_dims(b, pmi(pp), 0, 0, 0, 0, 0);
    assert(mmul(x, y) == mid(n));
    bx_assoc(fs, x, mmul(y, bs)); bx_assoc(x, y, bs); bx_id(bs);
}
/// the setting of one step, in block form
pub open spec fn step_setup(t: TriangularType, a1: int, p: int, q: int, r: int, s: int, ft: int, bs: int, a: int, b: int, c: int, d: int) -> bool {
    let ap = mmul(mmul(pm(p), a1), pmi(q)); let (m, n) = (nr(a1), nc(a1));
    &&& pdim(p) == m && pdim(q) == n && elim_maps(ap, s, r, ft, bs)
    &&& ap == mstack(mconcat(a, b), mconcat(c, d)) && block_dims(a, b, c, d, r, m, n) && tri_ok(t, a)
    &&& ft == mconcat(mneg(mmul(c, minv(a))), mid(m - r)) && bs == mstack(mneg(mmul(minv(a), b)), mid(n - r))
}
/// bs v = w for w = Q a0 (v its non-pivot rows) when a1 a0 = 0:  the pivot rows of w are determined by the others
pub proof fn lemma_bs_v(t: TriangularType, a1: int, a0: int, p: int, q: int, r: int, s: int, ft: int, bs: int, a: int, b: int, c: int, d: int)
    requires step_setup(t, a1, p, q, r, s, ft, bs, a, b, c, d), nc(a1) == nr(a0), mmul(a1, a0) == mzero(nr(a1), nc(a0)),
    ensures mmul(bs, mrows(mmul(pm(q), a0), r, nr(a0))) == mmul(pm(q), a0)
{
    bx_dims_all();
    let ap = mmul(mmul(pm(p), a1), pmi(q)); let w = mmul(pm(q), a0); let n = nr(a0); let m = nr(a1); let k = nc(a0);
    bx_perm(p); bx_perm(q); bx_dims(pm(p), a1, 0, 0, 0, 0, 0); bx_dims(mmul(pm(p), a1), pmi(q), 0, 0, 0, 0, 0); bx_dims(pm(q), a0, r, n, 0, 0, 0); bx_dims(w, 0, 0, r, 0, 0, 0); bx_dims(w, 0, r, n, 0, 0, 0);
    bx_assoc(mmul(pm(p), a1), pmi(q), w); bx_assoc(pmi(q), pm(q), a0); bx_id(a0); bx_assoc(pm(p), a1, a0); bx_zero_mul(pm(p), m, k);
    assert(mmul(ap, w) == mzero(m, k));
    let (u, v) = (mrows(w, 0, r), mrows(w, r, n));
    bx_split(w, r);
    // A' [u ; v] = [a u + b v ; c u + d v] = 0, so a u + b v = 0
    bx_stack_mul(mconcat(a, b), mconcat(c, d), w); bx_concat_stack(a, b, u, v);
    let top = madd(mmul(a, u), mmul(b, v));
    bx_dims(a, u, 0, 0, 0, 0, 0); bx_dims(b, v, 0, 0, 0, 0, 0); bx_add_dims(mmul(a, u), mmul(b, v)); bx_dims(mconcat(c, d), w, 0, 0, 0, 0, 0);
    bx_parts(top, mmul(mconcat(c, d), w)); bx_sub_zero(m, k, 0, r);
    assert(top == mzero(r, k));
    bx_add_inv(mmul(a, u), mmul(b, v));
    // u = a^-1 a u = -(a^-1 b v) = (-(a^-1 b)) v
    bx_tri_inv(t, a); bx_assoc(minv(a), a, u); bx_id(u); bx_neg_mul(minv(a), mmul(b, v)); bx_assoc(minv(a), b, v); bx_neg_mul(mmul(minv(a), b), v);
    let nx = mneg(mmul(minv(a), b));
    assert(u == mmul(nx, v));
    // bs v = [nx v ; I v] = [u ; v] = w
    bx_stack_mul(nx, mid(n - r), v); bx_id(v);
}
/// z2 ft = z for z = a2 P^-1 (z2 its non-pivot columns) when a2 a1 = 0
pub proof fn lemma_z2_ft(t: TriangularType, a1: int, a2: int, p: int, q: int, r: int, s: int, ft: int, bs: int, a: int, b: int, c: int, d: int)
    requires step_setup(t, a1, p, q, r, s, ft, bs, a, b, c, d), nc(a2) == nr(a1), mmul(a2, a1) == mzero(nr(a2), nc(a1)),
    ensures mmul(mcols(mmul(a2, pmi(p)), r, nc(a2)), ft) == mmul(a2, pmi(p))
{
    bx_dims_all();
    let ap = mmul(mmul(pm(p), a1), pmi(q)); let z = mmul(a2, pmi(p)); let n = nc(a1); let m = nr(a1); let k = nr(a2);
    bx_perm(p); bx_perm(q); bx_dims(pm(p), a1, 0, 0, 0, 0, 0); bx_dims(mmul(pm(p), a1), pmi(q), 0, 0, 0, 0, 0); bx_dims(a2, pmi(p), r, m, 0, 0, 0); bx_dims(z, 0, 0, r, 0, 0, 0); bx_dims(z, 0, r, m, 0, 0, 0);
    bx_assoc(z, mmul(pm(p), a1), pmi(q)); bx_assoc(z, pm(p), a1); bx_assoc(a2, pmi(p), pm(p)); bx_id(a2); bx_zero_mul(pmi(q), k, n);
    assert(mmul(z, ap) == mzero(k, n));
    let (z1, z2) = (mcols(z, 0, r), mcols(z, r, m));
    bx_split(z, r);
    // [z1 | z2] A' = [z1 a + z2 c | z1 b + z2 d] = 0, so z1 a + z2 c = 0
    bx_mul_concat_rows(z1, z2, a, b, c, d);
    let left = madd(mmul(z1, a), mmul(z2, c));
    bx_dims(z1, a, 0, 0, 0, 0, 0); bx_dims(z2, c, 0, 0, 0, 0, 0); bx_add_dims(mmul(z1, a), mmul(z2, c));
    bx_parts(left, madd(mmul(z1, b), mmul(z2, d))); bx_sub_zero(k, n, 0, r);
    assert(left == mzero(k, r));
    bx_add_inv(mmul(z1, a), mmul(z2, c));
    // z1 = z1 a a^-1 = -(z2 c) a^-1 = z2 (-(c a^-1))
    bx_tri_inv(t, a); bx_assoc(z1, a, minv(a)); bx_id(z1); bx_neg_mul(mmul(z2, c), minv(a)); bx_assoc(z2, c, minv(a)); bx_neg_mul(z2, mmul(c, minv(a)));
    let ny = mneg(mmul(c, minv(a)));
    assert(z1 == mmul(z2, ny));
    // z2 [ny | I] = [z2 ny | z2] = [z1 | z2] = z
    bx_mul_concat(z2, ny, mid(m - r)); bx_id(z2);
}

/// the six chain-map identities of one step (F = forward, B = backward; subscript 0 / 1 / 2 / 3 for degrees i-d, i, i+d, i+2d)
pub proof fn lemma_pairs(t: TriangularType, a1: int, p: int, q: int, r: int, s: int, ft: int, bs: int, a: int, b: int, c: int, d: int,
                         a0: int, a2: int, dd0: int, dd1: int, dd2: int, f0: int, b0: int, f1: int, b1: int, f2: int, b2: int, f3: int, b3: int)
    requires step_setup(t, a1, p, q, r, s, ft, bs, a, b, c, d),
    ensures ({
        let (m, n) = (nr(a1), nc(a1));
        let fs = mconcat(mzero(n - r, r), mid(n - r)); let bt = mstack(mzero(r, m - r), mid(m - r));
        let (f1n, b1n) = (mmul(fs, mmul(pm(q), f1)), mmul(mmul(b1, pmi(q)), bs));
        let (f2n, b2n) = (mmul(ft, mmul(pm(p), f2)), mmul(mmul(b2, pmi(p)), bt));
        let a0n = mrows(mmul(pm(q), a0), r, nr(a0)); let a2n = mcols(mmul(a2, pmi(p)), r, nc(a2));
        // pair (i-d, i), only F_i / B_i change
        &&& (nc(a1) == nr(a0) && mmul(a1, a0) == mzero(nr(a1), nc(a0)) && nr(f1) == n && mmul(f1, dd0) == mmul(a0, f0)) ==> mmul(f1n, dd0) == mmul(a0n, f0)
        &&& (nc(a1) == nr(a0) && mmul(a1, a0) == mzero(nr(a1), nc(a0)) && nc(b1) == n && mmul(dd0, b0) == mmul(b1, a0)) ==> mmul(dd0, b0) == mmul(b1n, a0n)
        // pair (i, i+d), both change
        &&& (nr(f1) == n && nr(f2) == m && mmul(f2, dd1) == mmul(a1, f1)) ==> mmul(f2n, dd1) == mmul(s, f1n)
        &&& (nc(b1) == n && nc(b2) == m && mmul(dd1, b1) == mmul(b2, a1)) ==> mmul(dd1, b1n) == mmul(b2n, s)
        // pair (i+d, i+2d), only F_{i+d} / B_{i+d} change
        &&& (nc(a2) == nr(a1) && mmul(a2, a1) == mzero(nr(a2), nc(a1)) && nr(f2) == m && mmul(f3, dd2) == mmul(a2, f2)) ==> mmul(f3, dd2) == mmul(a2n, f2n)
        &&& (nc(a2) == nr(a1) && mmul(a2, a1) == mzero(nr(a2), nc(a1)) && nc(b2) == m && mmul(dd2, b2) == mmul(b3, a2)) ==> mmul(dd2, b2n) == mmul(b3, a2n)
    }),
{
    bx_dims_all();
    let (m, n) = (nr(a1), nc(a1)); let ap = mmul(mmul(pm(p), a1), pmi(q));
    let fs = mconcat(mzero(n - r, r), mid(n - r)); let bt = mstack(mzero(r, m - r), mid(m - r));
    let (f1n, b1n) = (mmul(fs, mmul(pm(q), f1)), mmul(mmul(b1, pmi(q)), bs));
    let (f2n, b2n) = (mmul(ft, mmul(pm(p), f2)), mmul(mmul(b2, pmi(p)), bt));
    let a0n = mrows(mmul(pm(q), a0), r, nr(a0)); let a2n = mcols(mmul(a2, pmi(p)), r, nc(a2));
    bx_perm(p); bx_perm(q); bx_dims(pm(p), a1, 0, 0, 0, 0, 0); bx_dims(mmul(pm(p), a1), pmi(q), 0, 0, 0, 0, 0);
    bx_dims(0, 0, 0, 0, n - r, n - r, r); bx_dims(0, 0, 0, 0, m - r, r, m - r);
    // (i-d, i) forward:  fs Q F1 D0 = fs Q a0 F0 = rows(Q a0) F0
    if nc(a1) == nr(a0) && mmul(a1, a0) == mzero(nr(a1), nc(a0)) && nr(f1) == n && mmul(f1, dd0) == mmul(a0, f0) {
        let w = mmul(pm(q), a0);
        bx_assoc(fs, mmul(pm(q), f1), dd0); bx_assoc(pm(q), f1, dd0); bx_assoc(pm(q), a0, f0); bx_assoc(fs, w, f0);
        bx_dims(pm(q), a0, 0, 0, 0, 0, 0); bx_proj(w, n - r);
        assert(mmul(f1n, dd0) == mmul(a0n, f0));
    }
    // (i-d, i) backward:  B1 Q^-1 bs v = B1 Q^-1 w = B1 a0
    if nc(a1) == nr(a0) && mmul(a1, a0) == mzero(nr(a1), nc(a0)) && nc(b1) == n && mmul(dd0, b0) == mmul(b1, a0) {
        lemma_bs_v(t, a1, a0, p, q, r, s, ft, bs, a, b, c, d);
        let w = mmul(pm(q), a0);
        bx_assoc(mmul(b1, pmi(q)), bs, a0n); bx_assoc(b1, pmi(q), w); bx_assoc(pmi(q), pm(q), a0); bx_id(a0);
        assert(mmul(b1n, a0n) == mmul(b1, a0));
    }
    // (i, i+d) forward:  ft P F2 D1 = ft P a1 F1;   S fs Q F1 = [0|S] Q F1 = ft A' Q F1 = ft P a1 F1
    if nr(f1) == n && nr(f2) == m && mmul(f2, dd1) == mmul(a1, f1) {
        bx_assoc(ft, mmul(pm(p), f2), dd1); bx_assoc(pm(p), f2, dd1); bx_assoc(pm(p), a1, f1);
        bx_assoc(s, fs, mmul(pm(q), f1)); bx_mul_concat(s, mzero(n - r, r), mid(n - r)); bx_zero_mul(s, n - r, r); bx_id(s);
        bx_assoc(ft, ap, mmul(pm(q), f1)); bx_assoc(mmul(pm(p), a1), pmi(q), mmul(pm(q), f1)); bx_assoc(pmi(q), pm(q), f1); bx_id(f1);
        assert(mmul(f2n, dd1) == mmul(s, f1n));
    }
    // (i, i+d) backward:  D1 B1 Q^-1 bs = B2 a1 Q^-1 bs = B2 P^-1 A' bs = B2 P^-1 [0;S];   B2 P^-1 bt S = B2 P^-1 [0;S]
    if nc(b1) == n && nc(b2) == m && mmul(dd1, b1) == mmul(b2, a1) {
        bx_assoc(dd1, mmul(b1, pmi(q)), bs); bx_assoc(dd1, b1, pmi(q)); bx_assoc(b2, a1, pmi(q));
        bx_assoc(mmul(b2, pmi(p)), bt, s); bx_stack_mul(mzero(r, m - r), mid(m - r), s); bx_zero_mul(s, r, m - r); bx_id(s);
        bx_assoc(mmul(b2, pmi(p)), ap, bs); bx_assoc(b2, pmi(p), mmul(mmul(pm(p), a1), pmi(q))); bx_assoc(pmi(p), mmul(pm(p), a1), pmi(q)); bx_assoc(pmi(p), pm(p), a1); bx_id(a1);
        bx_assoc(mmul(b2, a1), pmi(q), bs); bx_assoc(b2, mmul(a1, pmi(q)), bs); bx_assoc(b2, a1, pmi(q));
        assert(mmul(dd1, b1n) == mmul(b2n, s));
    }
    // (i+d, i+2d) forward:  a2' ft P F2 = z P F2 = a2 F2
    if nc(a2) == nr(a1) && mmul(a2, a1) == mzero(nr(a2), nc(a1)) && nr(f2) == m && mmul(f3, dd2) == mmul(a2, f2) {
        lemma_z2_ft(t, a1, a2, p, q, r, s, ft, bs, a, b, c, d);
        let z = mmul(a2, pmi(p));
        bx_assoc(a2n, ft, mmul(pm(p), f2)); bx_assoc(a2, pmi(p), mmul(pm(p), f2)); bx_assoc(pmi(p), pm(p), f2); bx_id(f2);
        assert(mmul(a2n, f2n) == mmul(a2, f2));
    }
    // (i+d, i+2d) backward:  D2 B2 P^-1 bt = B3 a2 P^-1 bt = B3 cols(a2 P^-1)
    if nc(a2) == nr(a1) && mmul(a2, a1) == mzero(nr(a2), nc(a1)) && nc(b2) == m && mmul(dd2, b2) == mmul(b3, a2) {
        let z = mmul(a2, pmi(p));
        bx_assoc(dd2, mmul(b2, pmi(p)), bt); bx_assoc(dd2, b2, pmi(p)); bx_assoc(b3, a2, pmi(p)); bx_assoc(b3, z, bt);
        bx_dims(a2, pmi(p), 0, 0, 0, 0, 0); bx_proj(z, m - r);
        assert(mmul(dd2, b2n) == mmul(b3, a2n));
    }
}

/// sizes of one transfer map against the current differentials, and F B = I
pub open spec fn t_sizes(ts: Map<int, (int, int)>, ms: Map<int, int>, d: int, j: int) -> bool {
    let (f, b) = ts[j];
    nc(b) == nr(f) && mmul(f, b) == mid(nr(f))
    && (ms.dom().contains(j) ==> nc(ms[j]) == nr(f)) && (ms.dom().contains(j - d) ==> nr(ms[j - d]) == nr(f))
}
/// the transfer maps (F_j, B_j) between an original complex dd and the current one ms: F B = I, F and B are chain maps
pub open spec fn tmap_ok(dd: Map<int, int>, ms: Map<int, int>, ts: Map<int, (int, int)>, d: int) -> bool {
    &&& forall|j: int| ts.dom().contains(j) ==> #[trigger] t_sizes(ts, ms, d, j)
    &&& forall|j: int| ts.dom().contains(j) && ts.dom().contains(j + d) && ms.dom().contains(j) && dd.dom().contains(j) ==>
            mmul((#[trigger] ts[j + d]).0, dd[j]) == mmul(ms[j], ts[j].0) && mmul(dd[j], ts[j].1) == mmul(ts[j + d].1, ms[j])
}
pub open spec fn new_mats(m0: Map<int, int>, d: int, i: int, p: int, q: int, r: int, s: int) -> Map<int, int> {
    let (i0, i2) = (i - d, i + d);
    let m1 = if m0.dom().contains(i0) { m0.insert(i0, mrows(mmul(pm(q), m0[i0]), r, nr(m0[i0]))) } else { m0 };
    let m2 = m1.insert(i, s);
    if m0.dom().contains(i2) { m2.insert(i2, mcols(mmul(m0[i2], pmi(p)), r, nc(m0[i2]))) } else { m2 }
}
pub open spec fn new_trans(t0: Map<int, (int, int)>, d: int, i: int, p: int, q: int, src: (int, int), tgt: (int, int)) -> Map<int, (int, int)> {
    let i2 = i + d;
    let t1 = if t0.dom().contains(i) { t0.insert(i, (mmul(src.0, mmul(pm(q), t0[i].0)), mmul(mmul(t0[i].1, pmi(q)), src.1))) } else { t0 };
    if t0.dom().contains(i2) { t1.insert(i2, (mmul(tgt.0, mmul(pm(p), t0[i2].0)), mmul(mmul(t0[i2].1, pmi(p)), tgt.1))) } else { t1 }
}
/// after one step the composed maps are again transfer maps to the new complex
pub proof fn lemma_tmap_step(tt: TriangularType, dd: Map<int, int>, m0: Map<int, int>, t0: Map<int, (int, int)>, d: int, i: int, p: int, q: int, r: int, s: int,
                             ft: int, bs: int, a: int, b: int, c: int, d4: int, upd: bool)
    requires chain_ok(m0, d), tmap_ok(dd, m0, t0, d), d != 0, m0.dom().contains(i), step_setup(tt, m0[i], p, q, r, s, ft, bs, a, b, c, d4),
        !upd ==> (!t0.dom().contains(i) && !t0.dom().contains(i + d)),
    ensures ({
        let (m, n) = (nr(m0[i]), nc(m0[i]));
        let src = (mconcat(mzero(n - r, r), mid(n - r)), bs); let tgt = (ft, mstack(mzero(r, m - r), mid(m - r)));
        (mmul(src.0, src.1) == mid(n - r) && mmul(tgt.0, tgt.1) == mid(m - r)) ==>
            tmap_ok(dd, new_mats(m0, d, i, p, q, r, s), if upd { new_trans(t0, d, i, p, q, src, tgt) } else { t0 }, d)
    }),
{
    let a1 = m0[i]; let (m, n) = (nr(a1), nc(a1)); let (i0, i2) = (i - d, i + d);
    let fs = mconcat(mzero(n - r, r), mid(n - r)); let bt = mstack(mzero(r, m - r), mid(m - r));
    let src = (fs, bs); let tgt = (ft, bt);
    let m3 = new_mats(m0, d, i, p, q, r, s); let t2 = if upd { new_trans(t0, d, i, p, q, src, tgt) } else { t0 };
    if mmul(fs, bs) == mid(n - r) && mmul(ft, bt) == mid(m - r) {
        bx_perm(p); bx_perm(q); bx_dims(pm(p), a1, 0, 0, 0, 0, 0); bx_dims(mmul(pm(p), a1), pmi(q), 0, 0, 0, 0, 0);
        bx_dims(0, 0, 0, 0, n - r, n - r, r); bx_dims(0, 0, 0, 0, m - r, r, m - r); bx_dims(mzero(n - r, r), mid(n - r), 0, 0, 0, 0, 0); bx_dims(mzero(r, m - r), mid(m - r), 0, 0, 0, 0, 0);
        let a0 = if m0.dom().contains(i0) { m0[i0] } else { 0 }; let a2 = if m0.dom().contains(i2) { m0[i2] } else { 0 };
        if m0.dom().contains(i0) { assert(nc(m0[i0 + d]) == nr(m0[i0])); bx_dims(pm(q), a0, r, nr(a0), 0, 0, 0); bx_dims(mmul(pm(q), a0), 0, r, nr(a0), 0, 0, 0); }
        if m0.dom().contains(i2) { assert(nc(m0[i + d]) == nr(m0[i])); bx_dims(a2, pmi(p), r, nc(a2), 0, 0, 0); bx_dims(mmul(a2, pmi(p)), 0, r, nc(a2), 0, 0, 0); }
        // ---- sizes and F B = I
        assert forall|j: int| t2.dom().contains(j) implies #[trigger] t_sizes(t2, m3, d, j) by {
            assert(t0.dom().contains(j)); assert(t_sizes(t0, m0, d, j));
            let (f, bb) = t0[j];
            if upd && j == i {
                lemma_fb(f, bb, q, fs, bs, n);
                bx_dims(fs, mmul(pm(q), f), 0, 0, 0, 0, 0); bx_dims(mmul(bb, pmi(q)), bs, 0, 0, 0, 0, 0);
            } else if upd && j == i2 {
                assert(m0.dom().contains(i2 - d));
                lemma_fb(f, bb, p, ft, bt, m);
                bx_dims(ft, mmul(pm(p), f), 0, 0, 0, 0, 0); bx_dims(mmul(bb, pmi(p)), bt, 0, 0, 0, 0, 0);
            } else { }
        }
        // ---- chain maps
        assert forall|j: int| t2.dom().contains(j) && t2.dom().contains(j + d) && m3.dom().contains(j) && dd.dom().contains(j) implies
            mmul((#[trigger] t2[j + d]).0, dd[j]) == mmul(m3[j], t2[j].0) && mmul(dd[j], t2[j].1) == mmul(t2[j + d].1, m3[j]) by {
            assert(t0.dom().contains(j) && t0.dom().contains(j + d) && m0.dom().contains(j));
            assert(mmul(t0[j + d].0, dd[j]) == mmul(m0[j], t0[j].0) && mmul(dd[j], t0[j].1) == mmul(t0[j + d].1, m0[j]));
            assert(t_sizes(t0, m0, d, j)); assert(t_sizes(t0, m0, d, j + d));
            if j == i0 || j == i || j == i2 {
                let z = (0int, 0int);
                let (tf0, tf1, tf2, tf3) = (if t0.dom().contains(i0) { t0[i0] } else { z }, if t0.dom().contains(i) { t0[i] } else { z }, if t0.dom().contains(i2) { t0[i2] } else { z }, if t0.dom().contains(i2 + d) { t0[i2 + d] } else { z });
                let (g0, g1, g2) = (if dd.dom().contains(i0) { dd[i0] } else { 0 }, if dd.dom().contains(i) { dd[i] } else { 0 }, if dd.dom().contains(i2) { dd[i2] } else { 0 });
                lemma_pairs(tt, a1, p, q, r, s, ft, bs, a, b, c, d4, a0, a2, g0, g1, g2, tf0.0, tf0.1, tf1.0, tf1.1, tf2.0, tf2.1, tf3.0, tf3.1);
                if j == i0 { assert(mmul(m0[i0 + d], m0[i0]) == mzero(nr(m0[i0 + d]), nc(m0[i0]))); }
                if j == i2 { assert(mmul(m0[i + d], m0[i]) == mzero(nr(m0[i + d]), nc(m0[i]))); assert(m0.dom().contains(i2 - d)); }
                if j == i { assert(t0.dom().contains(i) && t0.dom().contains(i + d)); }
            }
        }
    }
}

/// the Schur maps satisfy F B = I on both sides (stated by the Schur contract only when the maps are returned; re-derived here from the block form)
pub proof fn lemma_no_trans(t: TriangularType, ap: int, s: int, r: int, ft: int, bs: int, a: int, b: int, c: int, d: int)
    requires elim_maps(ap, s, r, ft, bs), ap == mstack(mconcat(a, b), mconcat(c, d)), block_dims(a, b, c, d, r, nr(ap), nc(ap)), tri_ok(t, a),
        ft == mconcat(mneg(mmul(c, minv(a))), mid(nr(ap) - r)), bs == mstack(mneg(mmul(minv(a), b)), mid(nc(ap) - r)),
    ensures mmul(mconcat(mzero(nc(ap) - r, r), mid(nc(ap) - r)), bs) == mid(nc(ap) - r), mmul(ft, mstack(mzero(r, nr(ap) - r), mid(nr(ap) - r))) == mid(nr(ap) - r)
{
    bx_dims_all();
    let (m, n) = (nr(ap), nc(ap)); let nx = mneg(mmul(minv(a), b)); let ny = mneg(mmul(c, minv(a)));
    bx_tri_inv(t, a); bx_dims(minv(a), b, 0, 0, 0, 0, 0); bx_dims(c, minv(a), 0, 0, 0, 0, 0); bx_add_dims(mmul(minv(a), b), 0); bx_add_dims(mmul(c, minv(a)), 0);
    bx_dims(0, 0, 0, 0, n - r, 0, 0); bx_dims(0, 0, 0, 0, m - r, 0, 0);
    bx_concat_stack(mzero(n - r, r), mid(n - r), nx, mid(n - r)); bx_zero_mul(nx, n - r, r); bx_id(mid(n - r)); bx_add_zero(mid(n - r));
    bx_concat_stack(ny, mid(m - r), mzero(r, m - r), mid(m - r)); bx_zero_mul(ny, r, m - r); bx_id(mid(m - r)); bx_add_zero(mid(m - r));
}

/// the start: identity transfer maps on a complex are transfer maps from that complex to itself
pub proof fn lemma_tmap_init(ms: Map<int, int>, ts: Map<int, (int, int)>, d: int)
    requires chain_ok(ms, d), forall|j: int| ts.dom().contains(j) ==> ms.dom().contains(j) && #[trigger] ts[j] == (mid(nc(ms[j])), mid(nc(ms[j]))) && 0 <= nc(ms[j]),
    ensures tmap_ok(ms, ms, ts, d)
{
    assert forall|j: int| ts.dom().contains(j) implies #[trigger] t_sizes(ts, ms, d, j) by {
        let tj = ts[j]; assert(ms.dom().contains(j));
        let n = nc(ms[j]); bx_dims(0, 0, 0, 0, n, 0, 0); bx_id(mid(n));
        if ms.dom().contains(j - d) { let j0 = j - d; assert(ms.dom().contains(j0) && ms.dom().contains(j0 + d)); assert(nc(ms[j0 + d]) == nr(ms[j0])); }
    }
    assert forall|j: int| ts.dom().contains(j) && ts.dom().contains(j + d) && ms.dom().contains(j) && ms.dom().contains(j) implies
        mmul((#[trigger] ts[j + d]).0, ms[j]) == mmul(ms[j], ts[j].0) && mmul(ms[j], ts[j].1) == mmul(ts[j + d].1, ms[j]) by {
        let (tj, tjd) = (ts[j], ts[j + d]); assert(ms.dom().contains(j + d)); assert(nc(ms[j + d]) == nr(ms[j])); bx_id(ms[j]);
    }
}

impl ChainReducer {
    pub fn matrix(&self, i: Deg) -> (r: Option<&SpMat>) ensures r.is_some() == self.mats.m@.dom().contains(i.g@), r.is_some() ==> r.unwrap().m@ == self.mats.m@[i.g@],
    //@body impl/ChainReducer/matrix
    //@+ sig
    //@| fn matrix(&self, i: I) -> Option<&SpMat<R>>

    pub fn deg_trip(&self, i: Deg) -> (r: (Deg, Deg, Deg)) ensures r.0.g@ == i.g@ - self.d_deg.g@, r.1.g@ == i.g@, r.2.g@ == i.g@ + self.d_deg.g@,
    //@body impl/ChainReducer/deg_trip ring=1 q=i,deg qname=d
    //@+ sig
    //@| fn deg_trip(&self, i: I) -> (I, I, I)

    /// put the reduced matrices in place: d_{i-1} loses its pivot rows, d_i becomes s, d_{i+1} loses its pivot columns
    pub fn update_mats(&mut self, i: Deg, p: &PermOwned, q: &PermOwned, r: usize, s: SpMat)
        requires old(self).d_deg.g@ != 0, r <= pdim(p.p@), r <= pdim(q.p@),
//@if B
            old(self).mats.m@.dom().contains(i.g@ - old(self).d_deg.g@) ==> nr(old(self).mats.m@[i.g@ - old(self).d_deg.g@]) == pdim(q.p@),
            old(self).mats.m@.dom().contains(i.g@ + old(self).d_deg.g@) ==> nc(old(self).mats.m@[i.g@ + old(self).d_deg.g@]) == pdim(p.p@),
//@endif
        ensures ({
            let (m0, d) = (old(self).mats.m@, old(self).d_deg.g@); let (i0, i2) = (i.g@ - d, i.g@ + d);
            let m1 = if m0.dom().contains(i0) { m0.insert(i0, mrows(mmul(pm(q.p@), m0[i0]), r as int, nr(m0[i0]))) } else { m0 };
            let m2 = m1.insert(i.g@, s.m@);
            let m3 = if m0.dom().contains(i2) { m2.insert(i2, mcols(mmul(m0[i2], pmi(p.p@)), r as int, nc(m0[i2]))) } else { m2 };
            &&& final(self).mats.m@ == m3 && final(self).d_deg == old(self).d_deg && final(self).trans == old(self).trans && final(self).vecs == old(self).vecs
            &&& (m0.dom().contains(i0) ==> nr(m0[i0]) == pdim(q.p@)) && (m0.dom().contains(i2) ==> nc(m0[i2]) == pdim(p.p@))
        }),
    //@body impl/ChainReducer/update_mats
    //@+ sig
    //@| fn update_mats(&mut self, i: I, p: &PermOwned, q: &PermOwned, r: usize, s: SpMat<R>)
    pub fn trans_mut(&mut self, i: Deg) -> (r: Option<&mut Trans>)
        ensures r.is_some() == old(self).trans.m@.dom().contains(i.g@),
            r.is_some() ==> ((r.unwrap().f@, r.unwrap().b@) == old(self).trans.m@[i.g@] && final(self).trans.m@ == old(self).trans.m@.insert(i.g@, ((*final(r.unwrap())).f@, (*final(r.unwrap())).b@))),
            r.is_none() ==> final(self).trans.m@ == old(self).trans.m@,
            final(self).mats == old(self).mats, final(self).d_deg == old(self).d_deg, final(self).vecs == old(self).vecs,
    //@body impl/ChainReducer/trans_mut
    //@+ sig
    //@| fn trans_mut(&mut self, i: I) -> Option<&mut Trans<R>>

    /// compose the transfer maps with the permutation and the Schur maps:  F_i' = f_src Q F_i,  F_{i+1}' = f_tgt P F_{i+1}  (and the backward maps)
    pub fn update_trans(&mut self, i: Deg, p: &PermOwned, q: &PermOwned, t_src: Trans, t_tgt: Trans)
        requires old(self).d_deg.g@ != 0,
        ensures ({
            let (t0, d) = (old(self).trans.m@, old(self).d_deg.g@); let i2 = i.g@ + d;
            let t1 = if t0.dom().contains(i.g@) { t0.insert(i.g@, (mmul(t_src.f@, mmul(pm(q.p@), t0[i.g@].0)), mmul(mmul(t0[i.g@].1, pmi(q.p@)), t_src.b@))) } else { t0 };
            let t2 = if t0.dom().contains(i2) { t1.insert(i2, (mmul(t_tgt.f@, mmul(pm(p.p@), t0[i2].0)), mmul(mmul(t0[i2].1, pmi(p.p@)), t_tgt.b@))) } else { t1 };
            final(self).trans.m@ == t2 && final(self).mats == old(self).mats && final(self).d_deg == old(self).d_deg && final(self).vecs == old(self).vecs
        }),
    //@body impl/ChainReducer/update_trans
    //@+ sig
    //@| fn update_trans(&mut self, i: I, p: &PermOwned, q: &PermOwned, t_src: Trans<R>, t_tgt: Trans<R>)

    /// transport of the tracked vectors: proved in unit chain_vecs on the repository's body
//@if B
//@contract-of units/chain_vecs/contract.rs update_vecs variant=B
//@else
//@contract-of units/chain_vecs/contract.rs update_vecs variant=A
//@endif

    /// one reduction step at degree i: the differentials still compose to zero, and transfer maps stay transfer maps
    pub fn reduce_at_spec(&mut self, i: Deg, piv_type: PivotType, piv_cond: PivotCondition) -> (res: bool)
        requires old(self).d_deg.g@ != 0, chain_ok(old(self).mats.m@, old(self).d_deg.g@),
//@if B
            old(self).mats.m@.dom().contains(i.g@),
            // the tracked vectors have the dimensions of their chain groups
            old(self).vecs.m@.dom().contains(i.g@) ==> all_cols(old(self).vecs.m@[i.g@], nc(old(self).mats.m@[i.g@])),
            old(self).vecs.m@.dom().contains(i.g@ + old(self).d_deg.g@) ==> all_cols(old(self).vecs.m@[i.g@ + old(self).d_deg.g@], nr(old(self).mats.m@[i.g@])),
//@endif
        ensures old(self).mats.m@.dom().contains(i.g@), chain_ok(final(self).mats.m@, old(self).d_deg.g@), final(self).d_deg == old(self).d_deg,
            !res ==> (final(self).mats == old(self).mats && final(self).trans == old(self).trans),
            // for every original complex dd the maps were transfer maps to, they still are
            forall|dd: Map<int, int>| #[trigger] tmap_ok(dd, old(self).mats.m@, old(self).trans.m@, old(self).d_deg.g@) ==> tmap_ok(dd, final(self).mats.m@, final(self).trans.m@, old(self).d_deg.g@),
            // tracked vectors stay the images of their originals under the reported forward maps
            !res ==> final(self).vecs == old(self).vecs,
            forall|orig: Map<int, Seq<int>>| #[trigger] vec_ok(old(self).trans.m@, old(self).vecs.m@, orig) ==> vec_ok(final(self).trans.m@, final(self).vecs.m@, orig),
    //@body impl/ChainReducer/reduce_at_spec for_iter=1 ring=1 machine=r q=i,d_deg qname=d
    //@+ sig
    //@| fn reduce_at_spec(&mut self, i: I, piv_type: PivotType, piv_cond: PivotCondition) -> bool
    //@+ pre-raw
    //@| let ghost (m0, t0, dd) = (self.mats.m@, self.trans.m@, self.d_deg.g@); let ghost vs0 = self.vecs.m@;
    //@| let ghost mut gs = 0int; let ghost mut ap = 0int; let ghost mut gft = 0int; let ghost mut gbs = 0int; let ghost mut blk = (0int, 0int, 0int, 0int);
    //@+ after-let r
    //@| bx_perm(p.p@); bx_perm(q.p@);
    //@+ after-let s
    //@| gs = s.m@; ap = a.m@;
    //@| let (m, n) = (nr(ap), nc(ap));
    //@| let (ft, bs) = choose|ft: int, bs: int| #[trigger] elim_maps(ap, gs, r as int, ft, bs)
    //@|     && (with_trans ==> (ft == t_tgt.unwrap().f@ && bs == t_src.unwrap().b@ && t_src.unwrap().f@ == mconcat(mzero(n - r, r as int), mid(n - r)) && t_tgt.unwrap().b@ == mstack(mzero(r as int, m - r), mid(m - r))))
    //@|     && exists|a4: int, b4: int, c4: int, d4: int| #![trigger mstack(mconcat(a4, b4), mconcat(c4, d4))]
    //@|         ap == mstack(mconcat(a4, b4), mconcat(c4, d4)) && block_dims(a4, b4, c4, d4, r as int, m, n) && tri_ok(t, a4)
    //@|         && ft == mconcat(mneg(mmul(c4, minv(a4))), mid(m - r)) && bs == mstack(mneg(mmul(minv(a4), b4)), mid(n - r));
    //@| let (a4, b4, c4, d4) = choose|a4: int, b4: int, c4: int, d4: int| #![trigger mstack(mconcat(a4, b4), mconcat(c4, d4))]
    //@|         ap == mstack(mconcat(a4, b4), mconcat(c4, d4)) && block_dims(a4, b4, c4, d4, r as int, m, n) && tri_ok(t, a4)
    //@|         && ft == mconcat(mneg(mmul(c4, minv(a4))), mid(m - r)) && bs == mstack(mneg(mmul(minv(a4), b4)), mid(n - r));
    //@| gft = ft; gbs = bs; blk = (a4, b4, c4, d4);
    //@| lemma_chain_step(m0, dd, i.g@, p.p@, q.p@, r as int, gs, ft, bs);
    //@| if m0.dom().contains(i.g@ - dd) { assert(nc(m0[i.g@ - dd + dd]) == nr(m0[i.g@ - dd])); }
    //@| if m0.dom().contains(i.g@ + dd) { assert(nc(m0[i.g@ + dd]) == nr(m0[i.g@])); }
    //@| bx_dims(pm(p.p@), m0[i.g@], 0, 0, 0, 0, 0); bx_dims(mmul(pm(p.p@), m0[i.g@]), pmi(q.p@), 0, 0, 0, 0, 0);
    //@| // what the Schur contract says about F B (only when the maps are returned); without maps nothing in `trans` is touched
    //@| assert forall|o: Map<int, int>| #[trigger] tmap_ok(o, m0, t0, dd) implies
    //@|     tmap_ok(o, new_mats(m0, dd, i.g@, p.p@, q.p@, r as int, gs), if with_trans { new_trans(t0, dd, i.g@, p.p@, q.p@, (mconcat(mzero(n - r, r as int), mid(n - r)), bs), (ft, mstack(mzero(r as int, m - r), mid(m - r)))) } else { t0 }, dd) by {
    //@|     lemma_tmap_step(t, o, m0, t0, dd, i.g@, p.p@, q.p@, r as int, gs, ft, bs, a4, b4, c4, d4, with_trans);
    //@|     if !with_trans { lemma_no_trans(t, ap, gs, r as int, ft, bs, a4, b4, c4, d4); }
    //@| }
    //@+ post
    //@| if __ret {
    //@|     let (a4, b4, c4, d4) = blk; let (m, n) = (nr(ap), nc(ap)); let i2 = i.g@ + dd;
    //@|     let (t2, v1) = (self.trans.m@, self.vecs.m@);
    //@|     // the blocks update_vecs speaks about are the blocks of the Schur step: a block decomposition with these sizes is unique
    //@|     if vs0.dom().contains(i2) {
    //@|         let (a5, b5, c5, d5) = choose|a5: int, b5: int, c5: int, d5: int| #![trigger mstack(mconcat(a5, b5), mconcat(c5, d5))]
    //@|             ap == mstack(mconcat(a5, b5), mconcat(c5, d5)) && block_dims(a5, b5, c5, d5, r as int, m, n) && tri_ok(t, a5)
    //@|             && all_cols(vs0[i2], m) && v1[i2].len() == vs0[i2].len()
    //@|             && forall|k: int| 0 <= k < vs0[i2].len() ==> #[trigger] v1[i2][k] == mmul(f_tgt(a5, c5, m, r as int), mmul(pm(p.p@), vs0[i2][k]));
    //@|         lemma_blocks_unique(a4, b4, c4, d4, a5, b5, c5, d5, r as int, m, n);
    //@|         assert(a4 == a5 && c4 == c5);
    //@|     }
    //@|     assert forall|orig: Map<int, Seq<int>>| #[trigger] vec_ok(t0, vs0, orig) implies vec_ok(t2, v1, orig) by {
    //@|         if with_trans {
    //@|             assert(t2.dom() =~= t0.dom()); assert(v1.dom() =~= vs0.dom());
    //@|             lemma_vecs_follow(t0, t2, vs0, v1, orig, i.g@, dd, p.p@, q.p@, f_src(n, r as int), gft);
    //@|         } else {
    //@|             // no map is tracked at i or i + d: vec_ok says nothing there
    //@|             assert forall|j: int| v1.dom().contains(j) && t2.dom().contains(j) implies #[trigger] vec_ok_at(t2, v1, orig, j) by { assert(vec_ok_at(t0, vs0, orig, j)); }
    //@|         }
    //@|     }
    //@| }
    /// install a differential (and the identity transfer map on its source)
    pub fn set_matrix(&mut self, i: Deg, d: SpMat, with_trans: bool)
        ensures final(self).mats.m@ == old(self).mats.m@.insert(i.g@, d.m@), final(self).d_deg == old(self).d_deg,
            final(self).trans.m@ == (if with_trans { old(self).trans.m@.insert(i.g@, (mid(nc(d.m@)), mid(nc(d.m@)))) } else { old(self).trans.m@ }),
    //@body impl/ChainReducer/set_matrix
    //@+ sig
    //@| fn set_matrix(&mut self, i: I, d: SpMat<R>, with_trans: bool)
}

} // verus!
fn main() {}
