// ---- prelude/z.rs : model `Z` — the rational integers (DESIGN.md §1.6) ----
// An exec struct holding a ghost mathematical integer.  Used where the repository code is generic
// over `I: Integer` / `T: EucRing` and the property is about integers (QuadInt<I,D>, Ratio<T>,
// div_round).  TRUSTED ("machine arithmetic treated as mathematical"): the operations of
// i32/i64/i128 (when no intermediate overflows: the workspace builds with overflow-checks, so an
// overflow is a panic, never a wrong value) and of num-bigint's BigInt are the integer operations
// stated here; `/` and `%` truncate towards zero; gcd / lcm of machine integers are num_integer's
// (external crate) and are assumed to meet the contract proved for the generic code in unit euc_ring.
pub open spec fn zabs(a: int) -> int { if a < 0 { -a } else { a } }
/// truncated quotient and remainder (Rust `/`, `%` on integers; BigInt likewise)
pub open spec fn tdiv(a: int, b: int) -> int {
    if b == 0 { 0 } else if (a >= 0) == (b > 0) { zabs(a) / zabs(b) } else { -(zabs(a) / zabs(b)) }
}
pub open spec fn trem(a: int, b: int) -> int { a - tdiv(a, b) * b }
pub open spec fn zdvd(d: int, n: int) -> bool { exists|k: int| n == #[trigger] (k * d) }

pub proof fn lemma_tdiv(a: int, b: int)
    requires b != 0
    ensures
        a == tdiv(a, b) * b + trem(a, b),
        zabs(trem(a, b)) < zabs(b),
        trem(a, b) > 0 ==> a > 0,
        trem(a, b) < 0 ==> a < 0,
        zabs(tdiv(a, b)) <= zabs(a),
{
    let (x, y) = (zabs(a), zabs(b));
    let q = x / y; let r = x % y;
    assert(x == q * y + r && 0 <= r < y) by (nonlinear_arith) requires y > 0, q == x / y, r == x % y;
    assert(q <= x) by (nonlinear_arith) requires x == q * y + r, 0 <= r, y >= 1, q >= 0, x >= 0;
    assert(q >= 0) by (nonlinear_arith) requires x >= 0, y > 0, q == x / y;
    if (a >= 0) == (b > 0) {
        assert(tdiv(a, b) * b == q * b);
        if a >= 0 { assert(q * b == q * y); } else { assert(q * b == -(q * y)) by (nonlinear_arith) requires b == -y; }
    } else {
        assert(tdiv(a, b) * b == (-q) * b);
        if a >= 0 { assert((-q) * b == q * y) by (nonlinear_arith) requires b == -y; } else { assert((-q) * b == -(q * y)) by (nonlinear_arith) requires b == y; }
    }
}
/// exact division: b | a  ==>  (a / b) * b == a
pub proof fn lemma_tdiv_exact(a: int, b: int)
    requires b != 0, zdvd(b, a)
    ensures tdiv(a, b) * b == a, trem(a, b) == 0
{
    lemma_tdiv(a, b);
    let k = choose|k: int| a == #[trigger] (k * b);
    let r = trem(a, b);
    assert(r == (k - tdiv(a, b)) * b) by (nonlinear_arith) requires a == k * b, r == a - tdiv(a, b) * b;
    if r != 0 {
        let m = k - tdiv(a, b);
        assert(zabs(m * b) >= zabs(b)) by (nonlinear_arith) requires m != 0, b != 0;
    }
}

pub struct Z { pub g: Ghost<int> }
pub trait ZL: Sized { spec fn v(&self) -> int; }
impl ZL for Z { open spec fn v(&self) -> int { self.g@ } }
impl ZL for &Z { open spec fn v(&self) -> int { self.g@ } }
impl ZL for &&Z { open spec fn v(&self) -> int { self.g@ } }
impl ZL for &mut Z { open spec fn v(&self) -> int { self.g@ } }

#[verifier::external_body] pub fn add_<A: ZL, B: ZL>(a: A, b: B) -> (r: Z) ensures r.v() == a.v() + b.v() { unimplemented!() }
#[verifier::external_body] pub fn sub_<A: ZL, B: ZL>(a: A, b: B) -> (r: Z) ensures r.v() == a.v() - b.v() { unimplemented!() }
#[verifier::external_body] pub fn mul_<A: ZL, B: ZL>(a: A, b: B) -> (r: Z) ensures r.v() == a.v() * b.v() { unimplemented!() }
#[verifier::external_body] pub fn neg_<A: ZL>(a: A) -> (r: Z) ensures r.v() == -a.v() { unimplemented!() }
#[verifier::external_body] pub fn div_<A: ZL, B: ZL>(a: A, b: B) -> (r: Z) requires b.v() != 0 ensures r.v() == tdiv(a.v(), b.v()) { unimplemented!() }
#[verifier::external_body] pub fn rem_<A: ZL, B: ZL>(a: A, b: B) -> (r: Z) requires b.v() != 0 ensures r.v() == trem(a.v(), b.v()) { unimplemented!() }
#[verifier::external_body] pub fn eq_<A: ZL, B: ZL>(a: A, b: B) -> (r: bool) ensures r == (a.v() == b.v()) { unimplemented!() }
#[verifier::external_body] pub fn ne_<A: ZL, B: ZL>(a: A, b: B) -> (r: bool) ensures r == (a.v() != b.v()) { unimplemented!() }
#[verifier::external_body] pub fn lt_<A: ZL, B: ZL>(a: A, b: B) -> (r: bool) ensures r == (a.v() < b.v()) { unimplemented!() }
#[verifier::external_body] pub fn le_<A: ZL, B: ZL>(a: A, b: B) -> (r: bool) ensures r == (a.v() <= b.v()) { unimplemented!() }
#[verifier::external_body] pub fn gt_<A: ZL, B: ZL>(a: A, b: B) -> (r: bool) ensures r == (a.v() > b.v()) { unimplemented!() }
#[verifier::external_body] pub fn ge_<A: ZL, B: ZL>(a: A, b: B) -> (r: bool) ensures r == (a.v() >= b.v()) { unimplemented!() }
#[verifier::external_body] pub fn add_assign_<B: ZL>(a: &mut Z, b: B) ensures (*final(a)).v() == (*old(a)).v() + b.v() { unimplemented!() }
#[verifier::external_body] pub fn sub_assign_<B: ZL>(a: &mut Z, b: B) ensures (*final(a)).v() == (*old(a)).v() - b.v() { unimplemented!() }
#[verifier::external_body] pub fn mul_assign_<B: ZL>(a: &mut Z, b: B) ensures (*final(a)).v() == (*old(a)).v() * b.v() { unimplemented!() }
#[verifier::external_body] pub fn div_assign_<B: ZL>(a: &mut Z, b: B) requires b.v() != 0 ensures (*final(a)).v() == tdiv((*old(a)).v(), b.v()) { unimplemented!() }

impl Z {
    #[verifier::external_body] pub fn clone(&self) -> (r: Z) ensures r.v() == self.v() { unimplemented!() }
    #[verifier::external_body] pub fn zero() -> (r: Z) ensures r.v() == 0 { unimplemented!() }
    #[verifier::external_body] pub fn one() -> (r: Z) ensures r.v() == 1 { unimplemented!() }
    #[verifier::external_body] pub fn from_i32(k: i32) -> (r: Option<Z>) ensures r == Some(Z { g: Ghost(k as int) }) { unimplemented!() }
    #[verifier::external_body] pub fn is_zero(&self) -> (r: bool) ensures r == (self.v() == 0) { unimplemented!() }
    #[verifier::external_body] pub fn is_one(&self) -> (r: bool) ensures r == (self.v() == 1) { unimplemented!() }
    #[verifier::external_body] pub fn is_positive(&self) -> (r: bool) ensures r == (self.v() > 0) { unimplemented!() }
    #[verifier::external_body] pub fn is_negative(&self) -> (r: bool) ensures r == (self.v() < 0) { unimplemented!() }
    #[verifier::external_body] pub fn set_zero(&mut self) ensures (*final(self)).v() == 0 { unimplemented!() }
    #[verifier::external_body] pub fn set_one(&mut self) ensures (*final(self)).v() == 1 { unimplemented!() }
    #[verifier::external_body] pub fn cmp(&self, o: &Z) -> (r: core::cmp::Ordering)
        ensures r == core::cmp::Ordering::Less <==> self.v() < o.v(), r == core::cmp::Ordering::Equal <==> self.v() == o.v(), r == core::cmp::Ordering::Greater <==> self.v() > o.v() { unimplemented!() }
    // impl_integer! (yui/src/misc/int_ext.rs) — proved on i32 by the Kani harness ring_int_units_i32
    #[verifier::external_body] pub fn normalizing_unit(&self) -> (r: Z) ensures r.v() == (if self.v() < 0 { -1int } else { 1int }) { unimplemented!() }
    #[verifier::external_body] pub fn is_unit(&self) -> (r: bool) ensures r == (self.v() == 1 || self.v() == -1) { unimplemented!() }
    #[verifier::external_body] pub fn inv(&self) -> (r: Option<Z>)
        ensures match r { Some(w) => (self.v() == 1 || self.v() == -1) && w.v() == self.v(), None => !(self.v() == 1 || self.v() == -1) } { unimplemented!() }
}

// ---- gcd / lcm of integers: ASSUMED contract (num_integer for machine integers and BigInt; the
// generic EucRing code meeting the same statements is proved in unit euc_ring) ----
pub open spec fn zcoprime(a: int, b: int) -> bool { exists|s: int, t: int| #[trigger] (s * a) + #[trigger] (t * b) == 1 }
impl Z {
    #[verifier::external_body] pub fn gcd(x: &Z, y: &Z) -> (g: Z)
        ensures g.v() >= 0, zdvd(g.v(), x.v()), zdvd(g.v(), y.v()),
            exists|s: int, t: int| g.v() == #[trigger] (s * x.v()) + #[trigger] (t * y.v()),
            (x.v() != 0 || y.v() != 0) ==> g.v() > 0,
    { unimplemented!() }
    #[verifier::external_body] pub fn lcm(x: &Z, y: &Z) -> (l: Z)
        ensures l.v() >= 0, zdvd(x.v(), l.v()), zdvd(y.v(), l.v()), (x.v() != 0 && y.v() != 0) ==> l.v() > 0,
    { unimplemented!() }
    #[verifier::external_body] pub fn add_assign<B: ZL>(&mut self, b: B) ensures (*final(self)).v() == (*old(self)).v() + b.v() { unimplemented!() }
    #[verifier::external_body] pub fn sub_assign<B: ZL>(&mut self, b: B) ensures (*final(self)).v() == (*old(self)).v() - b.v() { unimplemented!() }
}
