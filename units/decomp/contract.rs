// Contract overlay for the column-intersection test of the direct-sum decomposition (yui-matrix/src/sparse/decomp.rs: col_intersects),
// property C12 ("block splitting"): two columns are put into the same block exactly when they share a row.  The merge walk over the two
// sorted row-index lists returns true iff the lists have a common element.  (The grouping itself is the union-find of unit union_find.)
use vstd::prelude::*;
verus! {
//@include prelude/rt.rs
//@source yui-matrix/src/sparse/decomp.rs

// slice iteration model (ASSUMED std contract), as in unit link
pub struct VIter<'a, T> { pub es: Ghost<Seq<T>>, pub pos: Ghost<int>, pub w: Option<&'a T> }
#[verifier::external_body] pub fn viter_<'a, T>(c: &'a Vec<T>) -> (r: VIter<'a, T>) ensures r.es@ == c@, r.pos@ == 0 { unimplemented!() }
impl<'a, T> VIter<'a, T> {
    #[verifier::external_body] pub fn next(&mut self) -> (r: Option<&'a T>)
        requires 0 <= old(self).pos@ <= old(self).es@.len()
        ensures final(self).es@ == old(self).es@,
            old(self).pos@ < old(self).es@.len() ==> (final(self).pos@ == old(self).pos@ + 1 && r.is_some() && *r.unwrap() == old(self).es@[old(self).pos@]),
            old(self).pos@ >= old(self).es@.len() ==> (final(self).pos@ == old(self).pos@ && r.is_none()),
    { unimplemented!() }
}
/// the sparse matrix by its pattern: the row indices of each column (ASSUMED accessors of nalgebra-sparse's CscMatrix)
pub struct SpMat { pub cols: Ghost<Seq<Seq<usize>>> }
pub struct Csc { pub cols: Ghost<Seq<Seq<usize>>> }
pub struct CscCol { pub idx: Ghost<Seq<usize>> }
impl SpMat { #[verifier::external_body] pub fn inner(&self) -> (r: &Csc) ensures r.cols@ == self.cols@ { unimplemented!() } }
impl Csc {
    /// does not return for j out of range
    #[verifier::external_body] pub fn col(&self, j: usize) -> (r: CscCol)
//@if B
        requires j < self.cols@.len(),
//@endif
        ensures j < self.cols@.len(), r.idx@ == self.cols@[j as int] { unimplemented!() }
}
impl CscCol { #[verifier::external_body] pub fn row_indices(&self) -> (r: &Vec<usize>) ensures r@ == self.idx@ { unimplemented!() } }

/// CSC invariant: the row indices of a column are strictly increasing
pub open spec fn sorted(s: Seq<usize>) -> bool { forall|a: int, b: int| 0 <= a < b < s.len() ==> s[a] < s[b] }
pub open spec fn common(s1: Seq<usize>, s2: Seq<usize>) -> bool { exists|a: int, b: int| 0 <= a < s1.len() && 0 <= b < s2.len() && #[trigger] s1[a] == #[trigger] s2[b] }

fn col_intersects(a: &SpMat, j1: usize, j2: usize) -> (r: bool)
    requires
//@if B
        j1 < a.cols@.len(), j2 < a.cols@.len(),
//@endif
        forall|j: int| 0 <= j < a.cols@.len() ==> sorted(#[trigger] a.cols@[j]),
    ensures j1 < a.cols@.len(), j2 < a.cols@.len(), r == common(a.cols@[j1 as int], a.cols@[j2 as int]),
//@body fn/col_intersects loops=1 iter_model=row_indices
//@+ sig
//@| fn col_intersects<R>(a: &SpMat<R>, j1: usize, j2: usize) -> bool
//@+ loop 0 header
//@| loop
//@+ pre-raw
//@| let ghost s1 = a.cols@[j1 as int]; let ghost s2 = a.cols@[j2 as int];
//@+ loop 0
//@| invariant j1 < a.cols@.len(), j2 < a.cols@.len(), sorted(s1), sorted(s2), itr1.es@ == s1, itr2.es@ == s2, 1 <= itr1.pos@ <= s1.len(), 1 <= itr2.pos@ <= s2.len(),
//@|     *i1 == s1[itr1.pos@ - 1], *i2 == s2[itr2.pos@ - 1], s1 == a.cols@[j1 as int], s2 == a.cols@[j2 as int],
//@|     forall|x: int, y: int| 0 <= x < itr1.pos@ - 1 && 0 <= y < s2.len() ==> #[trigger] s1[x] != #[trigger] s2[y],
//@|     forall|x: int, y: int| 0 <= x < s1.len() && 0 <= y < itr2.pos@ - 1 ==> #[trigger] s1[x] != #[trigger] s2[y],
//@| decreases s1.len() - itr1.pos@ + s2.len() - itr2.pos@,
} // verus!
fn main() {}
