// C04 (generator bidegree arithmetic) — contract harnesses on the real crate yui-kh for
// KhGen::{h_deg, q_deg}:   h = shift.0 + |state|,   q = shift.1 + sum(deg label) + #label + |state|,
// with deg(1) = 0, deg(X) = -2, i.e. q = shift.1 + #1(label) - #X(label) + |state|.
use super::src::*;
use crate::{ob, pre, reach};
use yui::bitseq::BitSeq;
use yui_kh::kh::{KhAlgGen, KhGen, KhLabel};

fn low_mask(n: usize) -> u64 { if n >= 64 { u64::MAX } else { (1u64 << n) - 1 } }

fn body(s: &mut Src, max_len: usize) -> R {
    let (sl, ll) = (s.small(0, max_len as i64) as usize, s.small(0, max_len as i64) as usize);
    let (sv, lv) = (s.u64() & low_mask(sl), s.u64() & low_mask(ll));
    let (h0, q0) = (s.small(-(1 << 40), 1 << 40), s.small(-(1 << 40), 1 << 40));
    pre!(sl <= max_len && ll <= max_len);
    reach!();
    let state = BitSeq::new(sv, sl);
    // label: bit 1 = the generator 1, bit 0 = the generator X (KhLabel stores a BitSeq)
    let mut label = KhLabel::empty();
    let mut k = 0;
    while k < ll { label.push(if (lv >> k) & 1 == 1 { KhAlgGen::I } else { KhAlgGen::X }); k += 1; }
    let g = KhGen::new(state, label, (h0 as isize, q0 as isize));
    let w = sv.count_ones() as isize;
    let ones = lv.count_ones() as isize;
    let xs = ll as isize - ones;
    ob!(g.h_deg() == h0 as isize + w, "h_deg::shift+weight(state)");
    ob!(g.q_deg() == q0 as isize + ones - xs + w, "q_deg::shift+#1-#X+weight(state)");
    ob!(KhAlgGen::I.deg() == 0 && KhAlgGen::X.deg() == -2, "KhAlgGen::deg");
    Ok(())
}
/// bounded stand-in: lengths <= 8
pub fn khgen_degrees_len8(s: &mut Src) -> R { body(s, 8) }
/// full range of lengths 0..=64 (type-bounded loops)
pub fn khgen_degrees_full(s: &mut Src) -> R { body(s, 64) }

crate::harness_table!(KHGEN: khgen_degrees_len8 [unwind 10], khgen_degrees_full [unwind 66]);
