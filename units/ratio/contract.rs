// Contract overlay for yui/src/types/ratio.rs (property C14: rationals stay in lowest terms with
// normalised denominator, so derived structural equality IS equality in Q after any operation
// sequence; operations agree with Q).  Model: T := Z (prelude/z.rs), gcd/lcm by contract.
//   wf(r)  ==  denom > 0  &&  coprime(numer, denom)      (Bezout form)
//   value  ==  numer / denom, expressed by cross-multiplication
use vstd::prelude::*;
use core::cmp;
verus! {
//@include prelude/rt.rs
//@include prelude/z.rs
//@source yui/src/types/ratio.rs

//@item struct/Ratio subst=T:Z

// ---------------------------------------------------------------- number theory (Bezout form)
pub proof fn lemma_coprime_one(n: int) ensures zcoprime(n, 1) { assert(0 * n + 1 * 1 == 1); }
pub proof fn lemma_coprime_unit(n: int, d: int) requires n == 1 || n == -1 ensures zcoprime(n, d) {
    if n == 1 { assert(1 * n + 0 * d == 1); } else { assert((-1) * n + 0 * d == 1); }
}
pub proof fn lemma_coprime_sym(a: int, b: int) requires zcoprime(a, b) ensures zcoprime(b, a) {
    let (s, t) = choose|s: int, t: int| #[trigger] (s * a) + #[trigger] (t * b) == 1;
    assert(t * b + s * a == 1);
}
pub proof fn lemma_coprime_neg(a: int, b: int) requires zcoprime(a, b) ensures zcoprime(-a, b) {
    let (s, t) = choose|s: int, t: int| #[trigger] (s * a) + #[trigger] (t * b) == 1;
    assert((-s) * (-a) + t * b == 1) by (nonlinear_arith) requires s * a + t * b == 1;
}
/// g = s n + t d,  n = g n',  d = g d',  g != 0   ==>   coprime(n', d')
pub proof fn lemma_coprime_quot(n: int, d: int, g: int, np: int, dp: int)
    requires g != 0, n == np * g, d == dp * g, exists|s: int, t: int| g == #[trigger] (s * n) + #[trigger] (t * d)
    ensures zcoprime(np, dp)
{
    let (s, t) = choose|s: int, t: int| g == #[trigger] (s * n) + #[trigger] (t * d);
    assert(g * (s * np + t * dp) == g * 1) by (nonlinear_arith) requires g == s * n + t * d, n == np * g, d == dp * g;
    assert(s * np + t * dp == 1) by (nonlinear_arith) requires g * (s * np + t * dp) == g * 1, g != 0;
}
/// divisors of coprime numbers are coprime
pub proof fn lemma_coprime_div(a: int, b: int, ap: int, k: int, bp: int, l: int)
    requires zcoprime(a, b), a == ap * k, b == bp * l
    ensures zcoprime(ap, bp)
{
    let (s, t) = choose|s: int, t: int| #[trigger] (s * a) + #[trigger] (t * b) == 1;
    assert((s * k) * ap + (t * l) * bp == 1) by (nonlinear_arith) requires s * a + t * b == 1, a == ap * k, b == bp * l;
}
// small polynomial identities, each proved on its own (keeps every nonlinear query tiny)
pub proof fn id_swap22(a: int, b: int, c: int, d: int) by (nonlinear_arith) ensures (a * b) * (c * d) == (a * c) * (b * d) {}
pub proof fn id_assoc3(a: int, b: int, c: int) by (nonlinear_arith) ensures (a * b) * c == a * (b * c), (a * b) * c == (a * c) * b {}
pub proof fn id_dist(p: int, q: int, r: int) by (nonlinear_arith) ensures (p + q) * r == p * r + q * r, (p - q) * r == p * r - q * r, r * (p + q) == r * p + r * q {}
pub proof fn id_prod_one(a: int, b: int, c: int, d: int) by (nonlinear_arith) requires a + b == 1, c + d == 1 ensures a * c + a * d + b * c + b * d == 1 {}

/// Euclid's lemma: coprime(x, m) && coprime(y, m) ==> coprime(x y, m)
pub proof fn lemma_coprime_mul(x: int, y: int, m: int)
    requires zcoprime(x, m), zcoprime(y, m)
    ensures zcoprime(x * y, m)
{
    let (s1, t1) = choose|s: int, t: int| #[trigger] (s * x) + #[trigger] (t * m) == 1;
    let (s2, t2) = choose|s: int, t: int| #[trigger] (s * y) + #[trigger] (t * m) == 1;
    let (a, b, c, d) = (s1 * x, t1 * m, s2 * y, t2 * m);
    id_prod_one(a, b, c, d);
    id_swap22(s1, x, s2, y);          // a c == (s1 s2)(x y)
    id_assoc3(a, t2, m);              // a d == (a t2) m
    id_assoc3(t1, m, c);              // b c == (t1 c) m
    id_assoc3(t1, m, d);              // b d == (t1 d) m
    let k = a * t2 + t1 * c + t1 * d;
    id_dist(a * t2, t1 * c, m); id_dist(a * t2 + t1 * c, t1 * d, m);
    assert((s1 * s2) * (x * y) + k * m == 1);
}
/// (a x + y c)(b d) == (a d + c b) l   when  x b == l  and  y d == l   (sum of fractions over the lcm)
pub proof fn lemma_add_frac(a: int, b: int, c: int, d: int, x: int, y: int, l: int)
    requires x * b == l, y * d == l
    ensures (a * x + y * c) * (b * d) == (a * d + c * b) * l, (a * x - y * c) * (b * d) == (a * d - c * b) * l
{
    id_swap22(a, x, d, b); id_swap22(c, y, b, d);
    assert((a * x) * (b * d) == (a * d) * l) by { assert(b * d == d * b) by (nonlinear_arith); assert(x * b == l); }
    assert((y * c) * (b * d) == (c * b) * l) by { assert(y * c == c * y) by (nonlinear_arith); }
    id_dist(a * x, y * c, b * d); id_dist(a * d, c * b, l);
}
/// coprime(n, d), d | n e  ==>  d | e
pub proof fn lemma_euclid_dvd(n: int, d: int, e: int, k: int)
    requires zcoprime(n, d), n * e == k * d
    ensures zdvd(d, e)
{
    let (s, t) = choose|s: int, t: int| #[trigger] (s * n) + #[trigger] (t * d) == 1;
    assert(e == (s * k + t * e) * d) by (nonlinear_arith) requires s * n + t * d == 1, n * e == k * d;
}
pub proof fn lemma_dvd_antisym_pos(a: int, b: int) requires a > 0, b > 0, zdvd(a, b), zdvd(b, a) ensures a == b {
    let k = choose|k: int| b == #[trigger] (k * a); let l = choose|l: int| a == #[trigger] (l * b);
    assert(k >= 1) by (nonlinear_arith) requires b == k * a, a > 0, b > 0;
    assert(l >= 1) by (nonlinear_arith) requires a == l * b, a > 0, b > 0;
    assert(b >= a) by (nonlinear_arith) requires b == k * a, k >= 1, a > 0;
    assert(a >= b) by (nonlinear_arith) requires a == l * b, l >= 1, b > 0;
}

/// n2/d2 == n1/d1 and n1/d1 == n0/d0 (d1 != 0)  ==>  n2/d2 == n0/d0
pub proof fn lemma_same_trans(n2: int, d2: int, n1: int, d1: int, n0: int, d0: int)
    requires n2 * d1 == n1 * d2, n1 * d0 == n0 * d1, d1 != 0
    ensures n2 * d0 == n0 * d2
{
    id_assoc3(n2, d0, d1); id_assoc3(n2, d1, d0); id_assoc3(n1, d2, d0); id_assoc3(n1, d0, d2); id_assoc3(n0, d1, d2); id_assoc3(n0, d2, d1);
    assert((n2 * d0) * d1 == (n0 * d2) * d1);
    assert(n2 * d0 == n0 * d2) by (nonlinear_arith) requires (n2 * d0) * d1 == (n0 * d2) * d1, d1 != 0;
}

impl Ratio {
    pub open spec fn wf(&self) -> bool { self.denom.v() > 0 && zcoprime(self.numer.v(), self.denom.v()) }
    /// same rational number (cross-multiplication)
    pub open spec fn same(&self, n: int, d: int) -> bool { self.numer.v() * d == n * self.denom.v() }
}

pub proof fn lemma_one_is_1_1(r: Ratio) requires r.wf(), r.numer.v() == r.denom.v() ensures r.numer.v() == 1, r.denom.v() == 1 {
    let n = r.numer.v();
    let (s, t) = choose|s: int, t: int| #[trigger] (s * n) + #[trigger] (t * n) == 1;
    assert((s + t) * n == 1) by (nonlinear_arith) requires s * n + t * n == 1;
    assert(n == 1) by (nonlinear_arith) requires (s + t) * n == 1, n > 0;
}
/// a/b * c/d with a = a' k, d = d' k, b = b' l, c = c' l, where k (resp. l) is a gcd of (a, d)
/// (resp. (b, c)) in Bezout form, or trivially 1 because d (resp. b) is 1:
/// (a' c') / (b' d') is in lowest terms with positive denominator and equals (a c)/(b d)
pub proof fn lemma_mul_branch(a: int, b: int, c: int, d: int, k: int, l: int, ap: int, bp: int, cp: int, dp: int)
    requires
        b > 0, d > 0, zcoprime(a, b), zcoprime(c, d), k > 0, l > 0,
        a == ap * k, d == dp * k, b == bp * l, c == cp * l,
        (exists|s: int, t: int| k == #[trigger] (s * a) + #[trigger] (t * d)) || (k == 1 && d == 1),
        (exists|s: int, t: int| l == #[trigger] (s * b) + #[trigger] (t * c)) || (l == 1 && b == 1),
    ensures
        bp * dp > 0,
        zcoprime(ap * cp, bp * dp),
        (ap * cp) * (b * d) == (a * c) * (bp * dp),
{
    assert(bp > 0) by (nonlinear_arith) requires b == bp * l, b > 0, l > 0;
    assert(dp > 0) by (nonlinear_arith) requires d == dp * k, d > 0, k > 0;
    assert(bp * dp > 0) by (nonlinear_arith) requires bp > 0, dp > 0;
    // coprime(a', d')
    if exists|s: int, t: int| k == #[trigger] (s * a) + #[trigger] (t * d) {
        lemma_coprime_quot(a, d, k, ap, dp);
    } else {
        assert(dp == 1) by (nonlinear_arith) requires d == dp * k, k == 1, d == 1;
        lemma_coprime_one(ap);
    }
    // coprime(b', c')
    if exists|s: int, t: int| l == #[trigger] (s * b) + #[trigger] (t * c) {
        lemma_coprime_quot(b, c, l, bp, cp);
    } else {
        assert(bp == 1) by (nonlinear_arith) requires b == bp * l, l == 1, b == 1;
        lemma_coprime_one(cp); lemma_coprime_sym(cp, 1);
    }
    // coprime(a', b'), coprime(c', d'): divisors of coprime numbers
    lemma_coprime_div(a, b, ap, k, bp, l);
    lemma_coprime_div(c, d, cp, l, dp, k);
    // a' and c' are coprime to b' d', hence so is a' c'
    lemma_coprime_sym(ap, bp); lemma_coprime_sym(ap, dp);
    lemma_coprime_mul(bp, dp, ap); lemma_coprime_sym(bp * dp, ap);
    lemma_coprime_sym(cp, dp);
    lemma_coprime_mul(bp, dp, cp); lemma_coprime_sym(bp * dp, cp);
    lemma_coprime_mul(ap, cp, bp * dp);
    // value:  (a'c')(b d) = (a'c')((b'd')(l k))  and  (a c)(b'd') = ((a'c')(k l))(b'd')
    id_swap22(bp, l, dp, k); id_swap22(ap, k, cp, l);
    let (pp, qq, mm) = (ap * cp, bp * dp, k * l);
    assert(l * k == k * l) by (nonlinear_arith);
    assert(b * d == qq * mm); assert(a * c == pp * mm);
    id_assoc3(pp, mm, qq);
    assert(qq * mm == mm * qq) by (nonlinear_arith);
}

/// lowest terms are unique: two well-formed values denoting the same rational are structurally equal,
/// so the derived PartialEq is equality in Q (this discharges the "all operation sequences" quantifier
/// through the invariant wf, which every operation below re-establishes).
pub proof fn lemma_lowest_terms_unique(r1: Ratio, r2: Ratio)
    requires r1.wf(), r2.wf(), r1.numer.v() * r2.denom.v() == r2.numer.v() * r1.denom.v()
    ensures r1.numer.v() == r2.numer.v(), r1.denom.v() == r2.denom.v()
{
    let (n1, d1, n2, d2) = (r1.numer.v(), r1.denom.v(), r2.numer.v(), r2.denom.v());
    lemma_euclid_dvd(n1, d1, d2, n2);
    assert(n2 * d1 == n1 * d2);
    lemma_euclid_dvd(n2, d2, d1, n1);
    lemma_dvd_antisym_pos(d1, d2);
    assert(n1 == n2) by (nonlinear_arith) requires n1 * d2 == n2 * d1, d1 == d2, d1 > 0;
}
pub proof fn lemma_zero_is_0_1(r: Ratio) requires r.wf(), r.numer.v() == 0 ensures r.denom.v() == 1 {
    let (s, t) = choose|s: int, t: int| #[trigger] (s * r.numer.v()) + #[trigger] (t * r.denom.v()) == 1;
    assert(t * r.denom.v() == 1);
    assert(r.denom.v() == 1) by (nonlinear_arith) requires t * r.denom.v() == 1, r.denom.v() > 0;
}

impl Ratio {
    pub fn new_raw(numer: Z, denom: Z) -> (r: Ratio)
        ensures r.numer.v() == numer.v(), r.denom.v() == denom.v(),
    //@body impl/Ratio/new_raw
    //@+ sig
    //@| const fn new_raw(numer: T, denom: T) -> Ratio<T>

    pub fn numer(&self) -> (r: &Z) ensures r.v() == self.numer.v(),
    //@body impl/Ratio/numer
    pub fn denom(&self) -> (r: &Z) ensures r.v() == self.denom.v(),
    //@body impl/Ratio/denom

    pub fn new(numer: Z, denom: Z) -> (r: Ratio)
//@if B
        requires denom.v() != 0,
//@endif
        ensures denom.v() != 0, r.wf(), r.same(numer.v(), denom.v()),
    //@body impl/Ratio/new
    //@+ sig
    //@| fn new(numer: T, denom: T) -> Ratio<T>

    pub fn reduce(&mut self)
        requires old(self).denom.v() != 0,
        ensures final(self).wf(), final(self).same(old(self).numer.v(), old(self).denom.v()),
    //@body impl/Ratio/reduce ring=1 subst=EucRing:Z
    //@+ sig
    //@| fn reduce(&mut self)
    //@+ pre
    //@| lemma_coprime_one(0); lemma_coprime_one(self.numer.v()); lemma_coprime_one(-self.numer.v());
    //@| if self.numer.v() == 0 { assert(self.numer.v() * self.denom.v() == 0) by (nonlinear_arith) requires self.numer.v() == 0; }
    //@+ after-let u
    //@| let (n0, d0) = (old(self).numer.v(), old(self).denom.v());
    //@| assert(u.v() == 1 || u.v() == -1);
    //@| assert(n0 * u.v() == (if u.v() == 1 { n0 } else { -n0 })) by (nonlinear_arith) requires u.v() == 1 || u.v() == -1;
    //@| assert(d0 * u.v() == (if u.v() == 1 { d0 } else { -d0 })) by (nonlinear_arith) requires u.v() == 1 || u.v() == -1;
    //@| assert((-n0) * d0 == n0 * (-d0)) by (nonlinear_arith);
    //@| lemma_coprime_unit(1, d0); lemma_coprime_unit(-1, d0); lemma_coprime_unit(1, -d0); lemma_coprime_unit(-1, -d0);
    //@+ after-let g
    //@| let (n1, d1) = (self.numer.v(), self.denom.v());
    //@| lemma_tdiv_exact(n1, g.v()); lemma_tdiv_exact(d1, g.v());
    //@| let (np, dp) = (tdiv(n1, g.v()), tdiv(d1, g.v()));
    //@| lemma_coprime_quot(n1, d1, g.v(), np, dp);
    //@| assert(dp > 0) by (nonlinear_arith) requires d1 == dp * g.v(), d1 > 0, g.v() > 0;
    //@| assert(np * d1 == n1 * dp) by (nonlinear_arith) requires n1 == np * g.v(), d1 == dp * g.v();
    //@| if g.v() == 1 { assert(np == n1 && dp == d1) by (nonlinear_arith) requires n1 == np * g.v(), d1 == dp * g.v(), g.v() == 1; }
    //@| let (n0, d0) = (old(self).numer.v(), old(self).denom.v());
    //@| lemma_same_trans(np, dp, n1, d1, n0, d0);

    pub fn is_int(&self) -> (r: bool)
        ensures r == (self.denom.v() == 1),
    //@body impl/Ratio/is_int
    //@+ sig
    //@| fn is_int(&self) -> bool

    pub fn from(a: Z) -> (r: Ratio)
        ensures r.wf(), r.numer.v() == a.v(), r.denom.v() == 1,
    //@body impl/From@Ratio/from#0 subst=T:Z
    //@+ pre
    //@| lemma_coprime_one(a.v());

    pub fn zero() -> (r: Ratio)
        ensures r.wf(), r.numer.v() == 0, r.denom.v() == 1,
    //@body impl/Zero@Ratio/zero subst=T:Z

    pub fn is_zero(&self) -> (r: bool)
        ensures r == (self.numer.v() == 0),
    //@body impl/Zero@Ratio/is_zero

    pub fn one() -> (r: Ratio)
        ensures r.wf(), r.numer.v() == 1, r.denom.v() == 1,
    //@body impl/One@Ratio/one subst=T:Z

    pub fn is_one(&self) -> (r: bool)
        ensures r == (self.numer.v() == self.denom.v()),
            self.wf() ==> (r == (self.numer.v() == 1 && self.denom.v() == 1)),
    //@body impl/One@Ratio/is_one ring=1
    //@+ pre
    //@| if self.wf() && self.numer.v() == self.denom.v() {
    //@|     let n = self.numer.v();
    //@|     let (s, t) = choose|s: int, t: int| #[trigger] (s * n) + #[trigger] (t * n) == 1;
    //@|     assert((s + t) * n == 1) by (nonlinear_arith) requires s * n + t * n == 1;
    //@|     assert(n == 1) by (nonlinear_arith) requires (s + t) * n == 1, n > 0;
    //@| }

    /// num_traits::Zero::set_zero default body (`*self = Zero::zero()`): std/num-traits text, TRUSTED to be this
    pub fn set_zero(&mut self)
        ensures final(self).wf(), final(self).numer.v() == 0, final(self).denom.v() == 1,
    { *self = Self::zero(); }

    pub fn add_assign(&mut self, rhs: &Ratio)
        requires old(self).wf(), rhs.wf(),
        ensures final(self).wf(),
            final(self).same(old(self).numer.v() * rhs.denom.v() + rhs.numer.v() * old(self).denom.v(), old(self).denom.v() * rhs.denom.v()),
    //@body impl/AddAssign@Ratio/add_assign macro=impl_add_assign_op(AddAssign;add_assign) ring=1 subst=EucRing:Z
    //@+ sig
    //@| fn add_assign(&mut self, rhs: &Ratio<T>)
    //@+ pre
    //@| let (a, b, c, d) = (self.numer.v(), self.denom.v(), rhs.numer.v(), rhs.denom.v());
    //@| if c == 0 { lemma_zero_is_0_1(*rhs); assert(a * (b * d) == (a * d + c * b) * b) by (nonlinear_arith) requires c == 0, d == 1; }
    //@| if a == 0 { lemma_zero_is_0_1(*self); assert((a + c) * (b * d) == (a * d + c * b) * d) by (nonlinear_arith) requires a == 0, b == 1; if "+" == "-" { lemma_coprime_neg(c, d); } }
    //@+ after-call reduce#0
    //@| let (a, b, c, d) = (old(self).numer.v(), old(self).denom.v(), rhs.numer.v(), rhs.denom.v());
    //@| assert((a + c) * (b * d) == (a * d + c * b) * b) by (nonlinear_arith) requires b == d;
    //@| lemma_same_trans(self.numer.v(), self.denom.v(), a + c, b, a * d + c * b, b * d);
    //@+ after-let l
    //@| let (ga, gb, gc, gd) = (old(self).numer.v(), old(self).denom.v(), rhs.numer.v(), rhs.denom.v());
    //@| lemma_tdiv_exact(l.v(), gb); lemma_tdiv_exact(l.v(), gd);
    //@+ after-let-raw l
    //@| let ghost lv = l.v();
    //@+ after-call reduce#1
    //@| let (ga, gb, gc, gd) = (old(self).numer.v(), old(self).denom.v(), rhs.numer.v(), rhs.denom.v());
    //@| let (x, y) = (tdiv(lv, gb), tdiv(lv, gd));
    //@| lemma_add_frac(ga, gb, gc, gd, x, y, lv);
    //@| lemma_same_trans(self.numer.v(), self.denom.v(), ga * x + y * gc, lv, ga * gd + gc * gb, gb * gd);

    pub fn sub_assign(&mut self, rhs: &Ratio)
        requires old(self).wf(), rhs.wf(),
        ensures final(self).wf(),
            final(self).same(old(self).numer.v() * rhs.denom.v() - rhs.numer.v() * old(self).denom.v(), old(self).denom.v() * rhs.denom.v()),
    //@body impl/SubAssign@Ratio/sub_assign macro=impl_add_assign_op(SubAssign;sub_assign) ring=1 subst=EucRing:Z
    //@+ sig
    //@| fn sub_assign(&mut self, rhs: &Ratio<T>)
    //@+ pre
    //@| let (a, b, c, d) = (self.numer.v(), self.denom.v(), rhs.numer.v(), rhs.denom.v());
    //@| if c == 0 { lemma_zero_is_0_1(*rhs); assert(a * (b * d) == (a * d - c * b) * b) by (nonlinear_arith) requires c == 0, d == 1; }
    //@| if a == 0 { lemma_zero_is_0_1(*self); assert((a - c) * (b * d) == (a * d - c * b) * d) by (nonlinear_arith) requires a == 0, b == 1; if "-" == "-" { lemma_coprime_neg(c, d); } }
    //@+ after-call reduce#0
    //@| let (a, b, c, d) = (old(self).numer.v(), old(self).denom.v(), rhs.numer.v(), rhs.denom.v());
    //@| assert((a - c) * (b * d) == (a * d - c * b) * b) by (nonlinear_arith) requires b == d;
    //@| lemma_same_trans(self.numer.v(), self.denom.v(), a - c, b, a * d - c * b, b * d);
    //@+ after-let l
    //@| let (ga, gb, gc, gd) = (old(self).numer.v(), old(self).denom.v(), rhs.numer.v(), rhs.denom.v());
    //@| lemma_tdiv_exact(l.v(), gb); lemma_tdiv_exact(l.v(), gd);
    //@+ after-let-raw l
    //@| let ghost lv = l.v();
    //@+ after-call reduce#1
    //@| let (ga, gb, gc, gd) = (old(self).numer.v(), old(self).denom.v(), rhs.numer.v(), rhs.denom.v());
    //@| let (x, y) = (tdiv(lv, gb), tdiv(lv, gd));
    //@| lemma_add_frac(ga, gb, gc, gd, x, y, lv);
    //@| lemma_same_trans(self.numer.v(), self.denom.v(), ga * x - y * gc, lv, ga * gd - gc * gb, gb * gd);

    pub fn mul_assign(&mut self, rhs: &Ratio)
        requires old(self).wf(), rhs.wf(),
        ensures final(self).wf(),
            final(self).same(old(self).numer.v() * rhs.numer.v(), old(self).denom.v() * rhs.denom.v()),
    //@body impl/MulAssign@Ratio/mul_assign ring=1 subst=EucRing:Z
    //@+ sig
    //@| fn mul_assign(&mut self, rhs: &Ratio<T>)
    //@+ pre
    //@| let (ga, gb, gc, gd) = (self.numer.v(), self.denom.v(), rhs.numer.v(), rhs.denom.v());
    //@| lemma_coprime_one(0);
    //@| if ga == 0 { lemma_zero_is_0_1(*self); assert(ga * (gb * gd) == (ga * gc) * gb) by (nonlinear_arith) requires ga == 0; }
    //@| if gc == gd { lemma_one_is_1_1(*rhs); assert(ga * (gb * gd) == (ga * gc) * gb) by (nonlinear_arith) requires gc == 1, gd == 1; }
    //@| if gc == 0 { assert(0 * (gb * gd) == (ga * gc) * 1) by (nonlinear_arith) requires gc == 0; }
    //@+ after-let k#0
    //@| // rhs is an integer c/1:  a/b * c  =  a (c/k) / (b/k),  k = gcd(b, c)
    //@| let (ga, gb, gc, gd) = (old(self).numer.v(), old(self).denom.v(), rhs.numer.v(), rhs.denom.v());
    //@| lemma_tdiv_exact(gb, k.v()); lemma_tdiv_exact(gc, k.v());
    //@| lemma_mul_branch(ga, gb, gc, gd, 1, k.v(), ga, tdiv(gb, k.v()), tdiv(gc, k.v()), gd);
    //@+ after-let k#1
    //@| // self is an integer a/1:  a * c/d  =  (a/k) c / (d/k),  k = gcd(a, d)
    //@| let (ga, gb, gc, gd) = (old(self).numer.v(), old(self).denom.v(), rhs.numer.v(), rhs.denom.v());
    //@| lemma_tdiv_exact(ga, k.v()); lemma_tdiv_exact(gd, k.v());
    //@| lemma_mul_branch(ga, gb, gc, gd, k.v(), 1, tdiv(ga, k.v()), gb, gc, tdiv(gd, k.v()));
    //@+ after-let l
    //@| // general case: k = gcd(a, d), l = gcd(b, c)
    //@| let (ga, gb, gc, gd) = (old(self).numer.v(), old(self).denom.v(), rhs.numer.v(), rhs.denom.v());
    //@| lemma_tdiv_exact(ga, k.v()); lemma_tdiv_exact(gd, k.v()); lemma_tdiv_exact(gb, l.v()); lemma_tdiv_exact(gc, l.v());
    //@| lemma_mul_branch(ga, gb, gc, gd, k.v(), l.v(), tdiv(ga, k.v()), tdiv(gb, l.v()), tdiv(gc, l.v()), tdiv(gd, k.v()));

    pub fn neg(self) -> (r: Ratio)
        requires self.wf(),
        ensures r.wf(), r.numer.v() == -self.numer.v(), r.denom.v() == self.denom.v(),
    //@body impl/Neg@Ratio/neg ring=1
    //@+ sig
    //@| fn neg(self) -> Self::Output
    //@+ post
    //@| lemma_coprime_neg(self.numer.v(), self.denom.v());
    //@| lemma_lowest_terms_unique(__ret, Ratio { numer: Z { g: Ghost(-self.numer.v()) }, denom: Z { g: Ghost(self.denom.v()) } });

    pub fn inv(&self) -> (r: Option<Ratio>)
        requires self.wf(),
        ensures match r {
            Some(w) => self.numer.v() != 0 && w.wf() && w.same(self.denom.v(), self.numer.v()),
            None => self.numer.v() == 0,
        },
    //@body impl/Ring@Ratio/inv
    //@+ sig
    //@| fn inv(&self) -> Option<Self>

    pub fn is_unit(&self) -> (r: bool)
        ensures r == (self.numer.v() != 0),
    //@body impl/Ring@Ratio/is_unit

    /// `*self *= r` with r by value: #[auto_ops] derives it from the by-reference impl proved above (ASSUMED to forward to it)
    #[verifier::external_body] pub fn mul_assign_val_(&mut self, rhs: Ratio)
        requires old(self).wf(), rhs.wf(),
        ensures final(self).wf(), final(self).same(old(self).numer.v() * rhs.numer.v(), old(self).denom.v() * rhs.denom.v()) { unimplemented!() }
    /// a/b divided by c/d (c != 0): the value a d / (b c) in lowest terms with a positive denominator; division by zero does not return
    pub fn div_assign(&mut self, rhs: &Ratio)
        requires old(self).wf(), rhs.wf(),
//@if B
            rhs.numer.v() != 0,
//@endif
        ensures rhs.numer.v() != 0, final(self).wf(),
            final(self).same(old(self).numer.v() * rhs.denom.v(), old(self).denom.v() * rhs.numer.v()),
    //@body impl/DivAssign@Ratio/div_assign ring=1 q=self,rhs qname=rq
    //@+ sig
    //@| fn div_assign(&mut self, rhs: &Ratio<T>)
    //@+ post
    //@| let (a, b, c, d) = (old(self).numer.v(), old(self).denom.v(), rhs.numer.v(), rhs.denom.v());
    //@| let w = choose|w: Ratio| #[trigger] w.wf() && w.same(d, c) && self.same(a * w.numer.v(), b * w.denom.v());
    //@| let (wn, wd, fnn, fd) = (w.numer.v(), w.denom.v(), self.numer.v(), self.denom.v());
    //@| assert((a * wn) * (b * c) == (a * b) * (wn * c)) by (nonlinear_arith);
    //@| assert((a * d) * (b * wd) == (a * b) * (d * wd)) by (nonlinear_arith);
    //@| assert(b * wd != 0) by (nonlinear_arith) requires b > 0, wd > 0;
    //@| lemma_same_trans(fnn, fd, a * wn, b * wd, a * d, b * c);

}

/// nested helper of Ord::cmp
pub fn div_mod_floor(a: &Z, b: &Z) -> (r: (Z, Z))
        requires b.v() > 0,
        ensures a.v() == r.0.v() * b.v() + r.1.v(), 0 <= r.1.v() < b.v(),
    //@body impl/Ord@Ratio/cmp/div_mod_floor ring=1 subst=T:Z
    //@+ sig
    //@| fn div_mod_floor<T>(a: &T, b: &T) -> (T, T) where T: Integer, for<'x> &'x T: IntOps<T>
    //@+ pre
    //@| lemma_tdiv(a.v(), b.v());
    //@| id_dist(tdiv(a.v(), b.v()), 1, b.v());

impl Ratio {
    /// Ord::cmp — the order of Q:  sign(n1 d2 - n2 d1), consistent with equality
    pub fn cmp(&self, other: &Ratio) -> (r: core::cmp::Ordering)
        requires self.denom.v() > 0, other.denom.v() > 0,
        ensures
            r == core::cmp::Ordering::Less <==> self.numer.v() * other.denom.v() < other.numer.v() * self.denom.v(),
            r == core::cmp::Ordering::Equal <==> self.numer.v() * other.denom.v() == other.numer.v() * self.denom.v(),
            r == core::cmp::Ordering::Greater <==> self.numer.v() * other.denom.v() > other.numer.v() * self.denom.v(),
        decreases self.denom.v() + other.denom.v()
    //@body impl/Ord@Ratio/cmp ring=1 subst=T:Z
    //@+ sig
    //@| fn cmp(&self, other: &Self) -> cmp::Ordering
    //@+ pre
    //@| let (n1, d1, n2, d2) = (self.numer.v(), self.denom.v(), other.numer.v(), other.denom.v());
    //@| if d1 == d2 { lemma_cmp_same_denom(n1, n2, d1); }
    //@+ after-let q2
    //@| let (n1, d1, n2, d2) = (self.numer.v(), self.denom.v(), other.numer.v(), other.denom.v());
    //@| lemma_cmp_floor(n1, d1, n2, d2, q1.v(), r1.v(), q2.v(), r2.v());
}

/// same positive denominator: compare numerators
pub proof fn lemma_cmp_same_denom(n1: int, n2: int, d: int)
    requires d > 0
    ensures (n1 < n2) == (n1 * d < n2 * d), (n1 == n2) == (n1 * d == n2 * d), (n1 > n2) == (n1 * d > n2 * d)
{
    assert((n1 < n2) ==> (n1 * d < n2 * d)) by (nonlinear_arith) requires d > 0;
    assert((n1 > n2) ==> (n1 * d > n2 * d)) by (nonlinear_arith) requires d > 0;
}
/// n_i = q_i d_i + r_i with 0 <= r_i < d_i:  the order of n1/d1 and n2/d2 is the order of (q1, r1/d1) and (q2, r2/d2)
pub proof fn lemma_cmp_floor(n1: int, d1: int, n2: int, d2: int, q1: int, r1: int, q2: int, r2: int)
    requires d1 > 0, d2 > 0, n1 == q1 * d1 + r1, 0 <= r1 < d1, n2 == q2 * d2 + r2, 0 <= r2 < d2
    ensures
        q1 < q2 ==> n1 * d2 < n2 * d1,
        q1 > q2 ==> n1 * d2 > n2 * d1,
        q1 == q2 ==> n1 * d2 - n2 * d1 == r1 * d2 - r2 * d1,
        // the recursive call compares d2/r2 with d1/r1
        d2 * r1 == r1 * d2, d1 * r2 == r2 * d1,
        r1 == 0 ==> r1 * d2 == 0, r2 == 0 ==> r2 * d1 == 0,
        r1 > 0 ==> r1 * d2 > 0, r2 > 0 ==> r2 * d1 > 0,
{
    let dd = d1 * d2;
    id_dist(q1 * d1, r1, d2); id_dist(q2 * d2, r2, d1);
    id_assoc3(q1, d1, d2); id_assoc3(q2, d2, d1);
    assert(d2 * d1 == dd) by (nonlinear_arith) requires dd == d1 * d2;
    assert(n1 * d2 == q1 * dd + r1 * d2); assert(n2 * d1 == q2 * dd + r2 * d1);
    assert(0 <= r1 * d2 < dd) by (nonlinear_arith) requires 0 <= r1 < d1, d2 > 0, dd == d1 * d2;
    assert(0 <= r2 * d1 < dd) by (nonlinear_arith) requires 0 <= r2 < d2, d1 > 0, dd == d1 * d2;
    assert(dd > 0) by (nonlinear_arith) requires d1 > 0, d2 > 0, dd == d1 * d2;
    if q1 < q2 { assert((q1 + 1) * dd <= q2 * dd) by (nonlinear_arith) requires q1 + 1 <= q2, dd > 0; id_dist(q1, 1, dd); }
    if q1 > q2 { assert((q2 + 1) * dd <= q1 * dd) by (nonlinear_arith) requires q2 + 1 <= q1, dd > 0; id_dist(q2, 1, dd); }
    assert(d2 * r1 == r1 * d2 && d1 * r2 == r2 * d1) by (nonlinear_arith);
    assert(r1 == 0 ==> r1 * d2 == 0) by (nonlinear_arith);
    assert(r2 == 0 ==> r2 * d1 == 0) by (nonlinear_arith);
    assert(r1 > 0 ==> r1 * d2 > 0) by (nonlinear_arith) requires d2 > 0;
    assert(r2 > 0 ==> r2 * d1 > 0) by (nonlinear_arith) requires d1 > 0;
}


pub fn rqmul_assign_(a: &mut Ratio, b: Ratio)
    requires old(a).wf(), b.wf(),
    ensures final(a).wf(), final(a).same(old(a).numer.v() * b.numer.v(), old(a).denom.v() * b.denom.v())
{ a.mul_assign_val_(b) }
} // verus!
fn main() {}
