// Contract overlay for the element (cycle) transport of the tangle-complex builder
// (yui-khovanov/src/kh/internal/v2/builder.rs: BuildElem::{deloop, eliminate}), property C06 (mechanism "canonical cycles are transported
// through delooping and Gaussian elimination") and, for the same formula, C01.
// The tracked element is z = sum_k z_k [k], stored as a finite map key -> morphism (absent = 0).  Proved on the repository's bodies:
//   eliminate(i, j):  z'_i = z'_j = 0;  z'_k = pe(z_k - c_{ik} a^-1 z_j) for every k != j with an edge i -> k (a = the edge i -> j);  every
//                     other component unchanged;  if z_j = 0 only z_i is dropped   -- Bar-Natan's retraction onto the reduced complex;
//   deloop(k, c):     z'_{k+X} = cap(z_k), z'_{k+1} = cap_Y(z_k) unless the circle carries the base point, z'_k = 0, the rest unchanged.
// Morphisms (LcCob) are an abstract additive group with composition; part_eval is an uninterpreted normal-form map.
use vstd::prelude::*;
verus! {
//@include prelude/rt.rs
//@source yui-khovanov/src/kh/internal/v2/builder.rs

pub type Edge = usize;

// ---------------------------------------------------------------- morphisms: linear combinations of cobordisms, abstract
pub uninterp spec fn czero() -> int;
pub uninterp spec fn csub(a: int, b: int) -> int;
pub uninterp spec fn cneg(a: int) -> int;
pub uninterp spec fn cmul(a: int, b: int) -> int;
pub uninterp spec fn cinv(a: int) -> Option<int>;
/// part_eval(h, t): the normal form of a morphism under the Frobenius-algebra relations (decided for closed components under C05) -- UNINTERPRETED
pub uninterp spec fn pe(a: int) -> int;
/// cap_off(Bottom::Tgt, c, dot)
pub uninterp spec fn capf(a: int, comp: int, dot: int) -> int;
/// additive group: 0 - x = -x  (TRUSTED algebra fact)
#[verifier::external_body] pub proof fn ax_sub_zero_left(x: int) ensures csub(czero(), x) == cneg(x) {}

pub struct LC { pub g: Ghost<int> }
pub trait LCL { spec fn v(&self) -> int; }
impl LCL for LC { open spec fn v(&self) -> int { self.g@ } }
impl<'a> LCL for &'a LC { open spec fn v(&self) -> int { (**self).g@ } }
#[verifier::external_body] pub fn mul_<A: LCL, B: LCL>(a: A, b: B) -> (r: LC) ensures r.v() == cmul(a.v(), b.v()) { unimplemented!() }
#[verifier::external_body] pub fn sub_<A: LCL, B: LCL>(a: A, b: B) -> (r: LC) ensures r.v() == csub(a.v(), b.v()) { unimplemented!() }
#[verifier::external_body] pub fn neg_<A: LCL>(a: A) -> (r: LC) ensures r.v() == cneg(a.v()) { unimplemented!() }
pub struct HT { pub g: Ghost<int> }
pub struct TngComp { pub id: Ghost<int>, pub marked_by: Ghost<Set<Edge>> }
impl TngComp {
    #[verifier::external_body] pub fn contains(&self, e: Edge) -> (r: bool) ensures r == self.marked_by@.contains(e) { unimplemented!() }
    /// the least edge label of the component (used for ordering / hashing components) -- UNINTERPRETED
    #[verifier::external_body] pub fn min_edge(&self) -> (r: Edge) { unimplemented!() }
}
#[derive(PartialEq, Eq, Structural, Clone, Copy)]
pub enum Bottom { Src, Tgt }
#[derive(PartialEq, Eq, Structural, Clone, Copy)]
pub enum Dot { None, X, Y }
pub open spec fn dotn(d: Dot) -> int { match d { Dot::None => 0, Dot::X => 1, Dot::Y => 2 } }
impl LC {
    #[verifier::external_body] pub fn clone(&self) -> (r: LC) ensures r.v() == self.v() { unimplemented!() }
    #[verifier::external_body] pub fn is_zero(&self) -> (r: bool) ensures r == (self.v() == czero()) { unimplemented!() }
    #[verifier::external_body] pub fn part_eval(self, h: &HT, t: &HT) -> (r: LC) ensures r.v() == pe(self.v()) { unimplemented!() }
    #[verifier::external_body] pub fn inv(&self) -> (r: Option<LC>) ensures r.is_some() == cinv(self.v()).is_some(), r.is_some() ==> r.unwrap().v() == cinv(self.v()).unwrap() { unimplemented!() }
    #[verifier::external_body] pub fn cap_off(self, b: Bottom, c: &TngComp, d: Dot) -> (r: LC) ensures b == Bottom::Tgt ==> r.v() == capf(self.v(), c.id@, dotn(d)) { unimplemented!() }
}

// ---------------------------------------------------------------- keys (TngKey: Copy, Eq) and the generator labels appended by delooping
#[derive(PartialEq, Eq, Structural, Clone, Copy)]
//@item enum/KhAlgGen source=yui-khovanov/src/kh/alg.rs
#[derive(Clone, Copy)]
pub struct TngKey { pub id: Ghost<int> }
pub uninterp spec fn key_add(k: int, g: KhAlgGen) -> int;
#[verifier::external_body] pub fn keq_(a: &TngKey, b: &TngKey) -> (r: bool) ensures r == (a.id@ == b.id@) { unimplemented!() }
#[verifier::external_body] pub fn kadd_(a: &TngKey, g: KhAlgGen) -> (r: TngKey) ensures r.id@ == key_add(a.id@, g) { unimplemented!() }

/// HashMap<TngKey, LcCob<R>> by its finite-map view (ASSUMED std contract)
pub struct KMap { pub m: Ghost<Map<int, int>> }
impl KMap {
    pub open spec fn v(&self) -> Map<int, int> { self.m@ }
    #[verifier::external_body] pub fn remove(&mut self, k: &TngKey) -> (r: Option<LC>)
        ensures final(self).v() == old(self).v().remove(k.id@), r.is_some() == old(self).v().dom().contains(k.id@), r.is_some() ==> r.unwrap().v() == old(self).v()[k.id@] { unimplemented!() }
    #[verifier::external_body] pub fn insert(&mut self, k: TngKey, x: LC) -> (r: Option<LC>)
        ensures final(self).v() == old(self).v().insert(k.id@, x.v()) { unimplemented!() }
    #[verifier::external_body] pub fn get(&self, k: &TngKey) -> (r: Option<&LC>)
        ensures r.is_some() == self.v().dom().contains(k.id@), r.is_some() ==> r.unwrap().v() == self.v()[k.id@] { unimplemented!() }
}
/// component of the element at key k (absent = 0)
pub open spec fn val(m: Map<int, int>, k: int) -> int { if m.dom().contains(k) { m[k] } else { czero() } }

// ---------------------------------------------------------------- the tangle complex, by its edges (ASSUMED accessors)
pub struct KeyIter<'a> { pub es: Ghost<Seq<int>>, pub pos: Ghost<int>, pub w: Option<&'a TngKey> }
impl<'a> KeyIter<'a> {
    pub fn into_iter(self) -> (r: Self) ensures r == self { self }
    #[verifier::external_body] pub fn next(&mut self) -> (r: Option<&'a TngKey>)
        requires 0 <= old(self).pos@ <= old(self).es@.len()
        ensures final(self).es@ == old(self).es@,
            old(self).pos@ < old(self).es@.len() ==> (final(self).pos@ == old(self).pos@ + 1 && r.is_some() && r.unwrap().id@ == old(self).es@[old(self).pos@]),
            old(self).pos@ >= old(self).es@.len() ==> (final(self).pos@ == old(self).pos@ && r.is_none()),
    { unimplemented!() }
}
/// (only the base point is a real field here; vertices and edges are behind the assumed accessors)
pub struct TngComplex { pub g: Ghost<int>, pub base_pt: Option<Edge> }
impl TngComplex {
    pub uninterp spec fn has(&self, i: int, k: int) -> bool;
    pub uninterp spec fn e(&self, i: int, k: int) -> int;
    #[verifier::external_body] pub fn has_edge(&self, i: &TngKey, k: &TngKey) -> (r: bool) ensures r == self.has(i.id@, k.id@) { unimplemented!() }
    /// indexes two hash maps: does not return for a missing edge
    #[verifier::external_body] pub fn edge(&self, i: &TngKey, k: &TngKey) -> (r: &LC)
//@if B
        requires self.has(i.id@, k.id@),
//@endif
        ensures self.has(i.id@, k.id@), r.v() == self.e(i.id@, k.id@) { unimplemented!() }
    #[verifier::external_body] pub fn ht(&self) -> (r: &(HT, HT)) { unimplemented!() }
    /// the targets of the edges out of i, each once (keys of a hash map)
    #[verifier::external_body] pub fn keys_out_from(&self, i: &TngKey) -> (r: KeyIter<'_>)
        ensures r.pos@ == 0, forall|a: int, b: int| 0 <= a < b < r.es@.len() ==> r.es@[a] != r.es@[b],
            forall|k: int| self.has(i.id@, k) <==> (exists|a: int| 0 <= a < r.es@.len() && #[trigger] r.es@[a] == k),
    { unimplemented!() }
}

impl TngComplex {
    /// the based circle (reduced theory: it is delooped into X only) is the one that CONTAINS the base point
    pub fn contains_base_pt(&self, c: &TngComp) -> (r: bool)
        ensures r == marked(self.base_pt, *c),
    //@source yui-khovanov/src/kh/internal/v2/tng_complex.rs
    //@body impl/TngComplex/contains_base_pt
    //@+ closure 0 typed
    //@| e: Edge
    //@+ closure 0
    //@| -> (r: bool) ensures r == c.marked_by@.contains(e)
    //@source yui-khovanov/src/kh/internal/v2/builder.rs
}

pub struct CobM { pub g: Ghost<int> }
pub struct SMap { pub g: Ghost<int> }
//@item struct/BuildElem subst=HashMap<TngKey,LcCob<R>>:KMap,HashMap<Crossing,Bit>:SMap,Cob:CobM

/// the retraction formula for the component at k
pub open spec fn elim_val(cx: TngComplex, z: Map<int, int>, i: int, j: int, k: int) -> int {
    if k == i || k == j { czero() }
    else if cx.has(i, k) { pe(csub(val(z, k), cmul(cmul(cx.e(i, k), cinv(cx.e(i, j)).unwrap()), z[j]))) }
    else { val(z, k) }
}
pub open spec fn seen(es: Seq<int>, n: int, k: int) -> bool { exists|a: int| 0 <= a < n && #[trigger] es[a] == k }

/// the circle carries the base point
pub open spec fn marked(base_pt: Option<Edge>, c: TngComp) -> bool { base_pt.is_some() && c.marked_by@.contains(base_pt.unwrap()) }
pub open spec fn deloop_map(z: Map<int, int>, k: int, c: TngComp, m: bool) -> Map<int, int> {
    let z1 = z.remove(k).insert(key_add(k, KhAlgGen::X), capf(z[k], c.id@, 0));
    if m { z1 } else { z1.insert(key_add(k, KhAlgGen::I), capf(z[k], c.id@, 2)) }
}

impl BuildElem {
    /// delooping of the circle c at vertex k: the component z_k is split into its X part (plain cap) and, unless the circle carries the
    /// base point (reduced theory), its 1 part (cap with a Y dot)
    pub fn deloop(&mut self, k: &TngKey, c: &TngComp)
        ensures !old(self).retr_cob.v().dom().contains(k.id@) ==> final(self).retr_cob.v() == old(self).retr_cob.v(),
            old(self).retr_cob.v().dom().contains(k.id@) ==> final(self).retr_cob.v() == deloop_map(old(self).retr_cob.v(), k.id@, *c, marked(old(self).base_pt, *c)),
            final(self).base_pt == old(self).base_pt,
    //@body impl/BuildElem/deloop ring=1 q=k:k
    //@+ closure 0 typed
    //@| e: Edge
    //@+ closure 0
    //@| -> (r: bool) ensures r == c.marked_by@.contains(e)

    /// Gaussian elimination of the edge a: i -> j: the element is pushed to the reduced complex by (z_k) |-> (z_k - c_ik a^-1 z_j)
    pub fn eliminate(&mut self, complex: &TngComplex, i: &TngKey, j: &TngKey)
        requires i.id@ != j.id@,
            // the complex is graded: no edge from a vertex to itself; the pivot edge is invertible (checked by the caller: LcCob::is_invertible, C05)
            !complex.has(i.id@, i.id@), cinv(complex.e(i.id@, j.id@)).is_some(),
//@if B
            complex.has(i.id@, j.id@),
//@endif
        ensures complex.has(i.id@, j.id@),
            !old(self).retr_cob.v().dom().contains(j.id@) ==> final(self).retr_cob.v() == old(self).retr_cob.v().remove(i.id@),
            old(self).retr_cob.v().dom().contains(j.id@) ==> cinv(complex.e(i.id@, j.id@)).is_some()
                && forall|k: int| #[trigger] val(final(self).retr_cob.v(), k) == elim_val(*complex, old(self).retr_cob.v(), i.id@, j.id@, k),
            final(self).base_pt == old(self).base_pt,
    //@body impl/BuildElem/eliminate for_iter=1 loops=1 ring=1 q=k:k,j:k
    //@+ sig
    //@| fn eliminate(&mut self, complex: &TngComplex<R>, i: &TngKey, j: &TngKey)
    //@+ loop 0 header
    //@| for k in complex.keys_out_from(i)
    //@+ pre-raw
    //@| let ghost z0 = self.retr_cob.v();
    //@+ loop 0
    //@| invariant i.id@ != j.id@, complex.has(i.id@, j.id@), !complex.has(i.id@, i.id@), z0.dom().contains(j.id@), b.v() == z0[j.id@], ainv.v() == cinv(complex.e(i.id@, j.id@)).unwrap(), cinv(complex.e(i.id@, j.id@)).is_some(),
    //@|     0 <= __it0.pos@ <= __it0.es@.len(), forall|a: int, b2: int| 0 <= a < b2 < __it0.es@.len() ==> __it0.es@[a] != __it0.es@[b2],
    //@|     forall|k2: int| complex.has(i.id@, k2) <==> (exists|a: int| 0 <= a < __it0.es@.len() && #[trigger] __it0.es@[a] == k2),
    //@|     self.base_pt == old(self).base_pt,
    //@|     forall|k2: int| #[trigger] val(self.retr_cob.v(), k2) == (if k2 == i.id@ || k2 == j.id@ { czero() } else if seen(__it0.es@, __it0.pos@, k2) { elim_val(*complex, z0, i.id@, j.id@, k2) } else { val(z0, k2) }),
    //@| ensures __it0.pos@ == __it0.es@.len(),
    //@| decreases __it0.es@.len() - __it0.pos@,
    //@+ loop 0 begin-raw
    //@| let ghost m1 = self.retr_cob.v(); let ghost p1 = __it0.pos@ - 1; let ghost es = __it0.es@; let ghost mut sv: int = 0; let ghost mut m2: Map<int, int> = Map::empty();
    //@+ loop 0 begin
    //@| assert(k.id@ == es[p1]);
    //@| assert(!seen(es, p1, k.id@)) by { if seen(es, p1, k.id@) { let a = choose|a: int| 0 <= a < p1 && #[trigger] es[a] == k.id@; assert(es[a] != es[p1]); } }
    //@| assert forall|k2: int| seen(es, p1 + 1, k2) == (seen(es, p1, k2) || k2 == k.id@) by {
    //@|     if seen(es, p1, k2) { let a = choose|a: int| 0 <= a < p1 && #[trigger] es[a] == k2; assert(es[a] == k2); }
    //@|     if k2 == k.id@ { assert(es[p1] == k2); }
    //@|     if seen(es, p1 + 1, k2) { let a = choose|a: int| 0 <= a < p1 + 1 && #[trigger] es[a] == k2; if a < p1 { assert(es[a] == k2); } }
    //@| }
    //@| assert(complex.has(i.id@, k.id@)) by { assert(es[p1] == k.id@); }
    //@| assert(val(m1, k.id@) == (if k.id@ == i.id@ || k.id@ == j.id@ { czero() } else { val(z0, k.id@) }));
    //@| ax_sub_zero_left(cmul(cmul(complex.e(i.id@, k.id@), cinv(complex.e(i.id@, j.id@)).unwrap()), z0[j.id@]));
    //@+ after-let s
    //@| sv = s.v(); m2 = self.retr_cob.v();
    //@| assert(m2 == m1.remove(k.id@));
    //@| assert(k.id@ != i.id@ && k.id@ != j.id@);
    //@| assert(val(m1, k.id@) == val(z0, k.id@));
    //@| assert(sv == pe(csub(val(z0, k.id@), cmul(cmul(complex.e(i.id@, k.id@), cinv(complex.e(i.id@, j.id@)).unwrap()), z0[j.id@]))));
    //@+ loop 0 end
    //@| assert forall|k2: int| #[trigger] val(self.retr_cob.v(), k2) == (if k2 == i.id@ || k2 == j.id@ { czero() } else if seen(es, p1 + 1, k2) { elim_val(*complex, z0, i.id@, j.id@, k2) } else { val(z0, k2) }) by {
    //@|     if k2 != k.id@ { assert(val(m2, k2) == val(m1, k2)); assert(val(self.retr_cob.v(), k2) == val(m2, k2)); }
    //@|     else {
    //@|         assert(k2 != i.id@ && k2 != j.id@);
    //@|         assert(val(m1, k2) == val(z0, k2));
    //@|         assert(val(self.retr_cob.v(), k2) == sv);
    //@|     }
    //@| }
    //@+ loop 0 after
    //@| assert forall|k2: int| #[trigger] val(self.retr_cob.v(), k2) == elim_val(*complex, z0, i.id@, j.id@, k2) by {
    //@|     if complex.has(i.id@, k2) { let a = choose|a: int| 0 <= a < __it0.es@.len() && #[trigger] __it0.es@[a] == k2; assert(seen(__it0.es@, __it0.es@.len() as int, k2)); }
    //@|     else if seen(__it0.es@, __it0.es@.len() as int, k2) { let a = choose|a: int| 0 <= a < __it0.es@.len() && #[trigger] __it0.es@[a] == k2; assert(complex.has(i.id@, k2)); }
    //@| }
}
} // verus!
fn main() {}
