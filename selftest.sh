#!/bin/bash
# selftest.sh — framework QA (not a registered check): apply every benign patch under selftest/benign
# to /repo, run the affected property checks, expect exit 0 (or 2), never 1; then undo the patch.
cd /verif; bad=0
declare -A PROPS=( [01]="C17" [02]="C15" [03]="C14" [04]="C12" [05]="C14" [06]="C15" [07]="C09" [08]="C05" [09]="C17" [10]="C16" [11]="C12" [12]="C07" [13]="C18" [14]="C12" [15]="C08" [16]="C16" [17]="C15" [18]="C11" [19]="C05" [20]="C13" [21]="C06 C05" [22]="C10 C12" [23]="C10" [24]="C08 C13 C17" [25]="C09 C07 C16" [26]="C14" )
for f in selftest/benign/*.diff; do
  n=$(basename $f | cut -c1-2)
  git -C /repo apply $PWD/$f || { echo "$f: does not apply"; bad=1; continue; }
  for p in ${PROPS[$n]}; do
    ./check $p > /tmp/selftest_$n.log 2>&1; rc=$?
    echo "$(basename $f) $p exit=$rc"
    if [ $rc -eq 1 ]; then bad=1; grep -E "^VIOLATION" /tmp/selftest_$n.log | head -3; fi
  done
  git -C /repo checkout -- .
done
exit $bad
