// Contract overlay for the trait-default code of yui/src/abst/euc_ring.rs and yui/src/abst/ring.rs
// (property C15), verified over the abstract Euclidean domain `ER` (prelude/er.rs): these bodies
// run for Z[i], Z[w], Q[x], F_p[x] (machine integers override gcd/gcdx/lcm with num_integer).
// Postconditions are the property statement: gcd divides both, is a combination s a + t b with the
// returned s, t, is the normalised associate regardless of argument order; lcm * gcd ~ a b.
use vstd::prelude::*;
verus! {
//@include prelude/rt.rs
//@include prelude/er.rs

//@include units/euc_ring/body.inc

} // verus!
fn main() {}
