// Contract overlay for composed coordinate transforms, yui-matrix/src/sparse/trans.rs (property C13,
// mechanism "transform composition order f_n..f_0 / b_0..b_n"; also the composition mechanism of C07):
//   a Trans holds forward maps f_0, .., f_n and backward maps b_0, .., b_n; it denotes
//       F = f_n ... f_1 f_0      and      B = b_0 b_1 ... b_n ,
//   append / merge compose, forward(v) / backward(v) apply exactly F / B, forward_mat / backward_mat
//   return them, and reduce() collapses the lists without changing F or B.
// Matrices and vectors are abstract (uninterpreted product / action); dimensions are not modelled
// (SpMat::id(n) acts as the identity: true whenever dimensions agree, which append's asserts enforce).
// The iterator folds over the Vec are desugared to index loops (R16).
use vstd::prelude::*;
verus! {
//@include prelude/rt.rs
//@include prelude/er.rs
//@source yui-matrix/src/sparse/trans.rs

pub uninterp spec fn mmul(a: int, b: int) -> int;
pub uninterp spec fn mid() -> int;
pub uninterp spec fn mact(m: int, v: int) -> int;
#[verifier::external_body] pub proof fn mx_assoc(a: int, b: int, c: int) ensures mmul(mmul(a, b), c) == mmul(a, mmul(b, c)) {}
#[verifier::external_body] pub proof fn mx_id(a: int) ensures mmul(mid(), a) == a, mmul(a, mid()) == a {}
#[verifier::external_body] pub proof fn mx_act(a: int, b: int, v: int) ensures mact(mmul(a, b), v) == mact(a, mact(b, v)), mact(mid(), v) == v {}

pub struct SpMat { pub m: Ghost<int> }
pub struct SpVec { pub v: Ghost<int> }
impl SpMat {
    #[verifier::external_body] pub fn id(n: usize) -> (r: SpMat) ensures r.m@ == mid() { unimplemented!() }
    #[verifier::external_body] pub fn clone(&self) -> (r: SpMat) ensures r.m@ == self.m@ { unimplemented!() }
    #[verifier::external_body] pub fn ncols(&self) -> (r: usize) { unimplemented!() }
    #[verifier::external_body] pub fn nrows(&self) -> (r: usize) { unimplemented!() }
}
impl SpVec {
    #[verifier::external_body] pub fn clone(&self) -> (r: SpVec) ensures r.v@ == self.v@ { unimplemented!() }
    #[verifier::external_body] pub fn dim(&self) -> (r: usize) { unimplemented!() }
}
pub trait ML: Sized { spec fn mv(&self) -> int; }
impl ML for SpMat { open spec fn mv(&self) -> int { self.m@ } }
impl ML for &SpMat { open spec fn mv(&self) -> int { self.m@ } }
impl ML for &&SpMat { open spec fn mv(&self) -> int { self.m@ } }
pub trait VL: Sized { spec fn vv(&self) -> int; }
impl VL for SpVec { open spec fn vv(&self) -> int { self.v@ } }
impl VL for &SpVec { open spec fn vv(&self) -> int { self.v@ } }
/// matrix * matrix and matrix * vector (sparse products: ASSUMED to be the product / the action)
#[verifier::external_body] pub fn qmul_<A: ML, B: ML>(a: A, b: B) -> (r: SpMat) ensures r.m@ == mmul(a.mv(), b.mv()) { unimplemented!() }
#[verifier::external_body] pub fn avmul_<A: ML, B: VL>(a: A, b: B) -> (r: SpVec) ensures r.v@ == mact(a.mv(), b.vv()) { unimplemented!() }

// ---- index-list iteration and selection matrices (for Trans::sub) ----
/// the selection matrix of an index list: row i has its 1 in column idx[i]  (p x n); mselt is its transpose
pub uninterp spec fn msel(idx: Seq<usize>, n: int) -> int;
pub uninterp spec fn mselt(idx: Seq<usize>, n: int) -> int;
pub struct VIter<'a> { pub es: Ghost<Seq<usize>>, pub w: Option<&'a usize> }
pub struct VEnum<'a> { pub es: Ghost<Seq<usize>>, pub w: Option<&'a usize> }
pub struct VEnumMap<'a, F> { pub es: Ghost<Seq<usize>>, pub f: F, pub w: Option<&'a usize> }
#[verifier::external_body] pub fn viter_<'a>(c: &'a [usize]) -> (r: VIter<'a>) ensures r.es@ == c@ { unimplemented!() }
impl<'a> VIter<'a> { #[verifier::external_body] pub fn enumerate(self) -> (r: VEnum<'a>) ensures r.es@ == self.es@ { unimplemented!() } }
impl<'a> VEnum<'a> {
    /// the lazy sequence f((0, &es[0])), f((1, &es[1])), ..
    #[verifier::external_body] pub fn map<F: Fn((usize, &'a usize)) -> (usize, usize, ER)>(self, f: F) -> (r: VEnumMap<'a, F>) ensures r.es@ == self.es@, r.f == f { unimplemented!() }
}
/// every listed entry is (i, idx[i], 1)  /  (idx[i], i, 1)
pub open spec fn sel_entries<'a, F: Fn((usize, &'a usize)) -> (usize, usize, ER)>(f: F, es: Seq<usize>, transposed: bool) -> bool {
    forall|i: usize, j: &'a usize, o: (usize, usize, ER)| i < es.len() && *j == es[i as int] && #[trigger] f.ensures(((i, j),), o)
        ==> (o.2.v() == r1() && (if transposed { o.0 == es[i as int] && o.1 == i } else { o.0 == i && o.1 == es[i as int] }))
}
pub uninterp spec fn mfe<F>(f: F, es: Seq<usize>, nrows: usize, ncols: usize) -> int;
impl SpMat {
    /// ASSUMED: the matrix with the listed entries; for the two entry lists of `sub` that is the selection matrix / its transpose
    #[verifier::external_body] pub fn from_entries<'a, F: Fn((usize, &'a usize)) -> (usize, usize, ER)>(shape: (usize, usize), entries: VEnumMap<'a, F>) -> (r: SpMat)
        requires forall|i: usize, j: &'a usize| i < entries.es@.len() && *j == entries.es@[i as int] ==> entries.f.requires(((i, j),)),
        ensures r.m@ == mfe(entries.f, entries.es@, shape.0, shape.1),
            forall|a: usize, b: usize| #![trigger mfe(entries.f, entries.es@, a, b)] (a == entries.es@.len() && sel_entries(entries.f, entries.es@, false)) ==> mfe(entries.f, entries.es@, a, b) == msel(entries.es@, b as int),
            forall|a: usize, b: usize| #![trigger mfe(entries.f, entries.es@, a, b)] (b == entries.es@.len() && sel_entries(entries.f, entries.es@, true)) ==> mfe(entries.f, entries.es@, a, b) == mselt(entries.es@, a as int),
    { unimplemented!() }
}

pub open spec fn ids(s: Seq<SpMat>) -> Seq<int> { s.map_values(|x: SpMat| x.m@) }
/// f_{n-1} ... f_1 f_0
pub open spec fn fprod(s: Seq<int>) -> int decreases s.len() { if s.len() == 0 { mid() } else { mmul(s.last(), fprod(s.drop_last())) } }
/// b_0 b_1 ... b_{n-1}
pub open spec fn bprod(s: Seq<int>) -> int decreases s.len() { if s.len() == 0 { mid() } else { mmul(bprod(s.drop_last()), s.last()) } }

pub proof fn lemma_take_step(s: Seq<int>, k: int) requires 0 < k <= s.len()
    ensures fprod(s.subrange(0, k)) == mmul(s[k - 1], fprod(s.subrange(0, k - 1))), bprod(s.subrange(0, k)) == mmul(bprod(s.subrange(0, k - 1)), s[k - 1])
{
    let t = s.subrange(0, k);
    assert(t.drop_last() =~= s.subrange(0, k - 1));
    assert(t.last() == s[k - 1]);
}
pub proof fn lemma_take_all(s: Seq<int>) ensures s.subrange(0, s.len() as int) =~= s, fprod(s.subrange(0, 0)) == mid(), bprod(s.subrange(0, 0)) == mid() {}
pub proof fn lemma_push(s: Seq<int>, x: int) ensures fprod(s.push(x)) == mmul(x, fprod(s)), bprod(s.push(x)) == mmul(bprod(s), x)
{ assert(s.push(x).drop_last() =~= s); }
pub proof fn lemma_concat(s: Seq<int>, t: Seq<int>) ensures fprod(s + t) == mmul(fprod(t), fprod(s)), bprod(s + t) == mmul(bprod(s), bprod(t))
    decreases t.len()
{
    if t.len() == 0 { assert(s + t =~= s); mx_id(fprod(s)); mx_id(bprod(s)); }
    else {
        assert((s + t).drop_last() =~= s + t.drop_last()); assert((s + t).last() == t.last());
        lemma_concat(s, t.drop_last());
        mx_assoc(t.last(), fprod(t.drop_last()), fprod(s)); mx_assoc(bprod(s), bprod(t.drop_last()), t.last());
    }
}
pub proof fn lemma_single(x: int) ensures fprod(seq![x]) == x, bprod(seq![x]) == x
{
    let s = seq![x];
    assert(s.len() == 1 && s.last() == x);
    assert(s.drop_last() =~= Seq::<int>::empty());
    assert(fprod(s.drop_last()) == mid()); assert(bprod(s.drop_last()) == mid());
    mx_id(x);
    assert(fprod(s) == mmul(s.last(), fprod(s.drop_last())));
    assert(bprod(s) == mmul(bprod(s.drop_last()), s.last()));
}
pub proof fn lemma_ids_push(s: Seq<SpMat>, x: SpMat) ensures ids(s.push(x)) =~= ids(s).push(x.m@) {}
pub proof fn lemma_ids_concat(s: Seq<SpMat>, t: Seq<SpMat>) ensures ids(s + t) =~= ids(s) + ids(t) {}

//@item struct/Trans subst=Vec<SpMat<R>>:Vec<SpMat>

/// sprs::PermView and the two permutation matrices built from it (ASSUMED: from_row_perm(p) a = a.permute_rows(p), a from_col_perm(p) = a.permute_cols(p);
/// sampled in spmat_ops_small; the two are mutually inverse)
pub uninterp spec fn pmat(p: int) -> int;
pub uninterp spec fn pmat_inv(p: int) -> int;
#[derive(Clone, Copy)]
pub struct PermView { pub p: Ghost<int> }
impl PermView {
    #[verifier::external_body] pub fn dim(&self) -> (r: usize) { unimplemented!() }
}
impl SpMat {
    #[verifier::external_body] pub fn from_row_perm(p: PermView) -> (r: SpMat) ensures r.m@ == pmat(p.p@) { unimplemented!() }
    #[verifier::external_body] pub fn from_col_perm(p: PermView) -> (r: SpMat) ensures r.m@ == pmat_inv(p.p@) { unimplemented!() }
}
impl Trans {
    pub open spec fn fwd(&self) -> int { fprod(ids(self.f_mats@)) }
    pub open spec fn bwd(&self) -> int { bprod(ids(self.b_mats@)) }

    pub fn id(n: usize) -> (r: Trans) ensures r.fwd() == mid(), r.bwd() == mid(), r.f_mats@.len() == 0, r.b_mats@.len() == 0,
    //@body impl/Trans/id
    //@+ sig
    //@| fn id(n: usize) -> Self

    pub fn is_id(&self) -> (r: bool) ensures r == (self.f_mats@.len() == 0),
    //@body impl/Trans/is_id

    /// compose with one more step:  F' = f F,  B' = B b
    pub fn append(&mut self, f: SpMat, b: SpMat)
        ensures final(self).fwd() == mmul(f.m@, old(self).fwd()), final(self).bwd() == mmul(old(self).bwd(), b.m@),
    //@body impl/Trans/append machine=ncols,nrows,tgt_dim
    //@+ sig
    //@| fn append(&mut self, f: SpMat<R>, b: SpMat<R>)
    //@+ pre-raw
    //@| let ghost (gf, gb) = (f.m@, b.m@);
    //@+ post
    //@| lemma_ids_push(old(self).f_mats@, SpMat { m: Ghost(gf) }); lemma_ids_push(old(self).b_mats@, SpMat { m: Ghost(gb) });
    //@| lemma_push(ids(old(self).f_mats@), gf); lemma_push(ids(old(self).b_mats@), gb);
    //@| assert(self.f_mats@ =~= old(self).f_mats@.push(SpMat { m: Ghost(gf) })) by { assert(self.f_mats@.last().m@ == gf); }
    //@| assert(self.b_mats@ =~= old(self).b_mats@.push(SpMat { m: Ghost(gb) })) by { assert(self.b_mats@.last().m@ == gb); }

    pub fn new(f: SpMat, b: SpMat) -> (r: Trans) ensures r.fwd() == f.m@, r.bwd() == b.m@,
    //@body impl/Trans/new
    //@+ pre
    //@| mx_id(f.m@); mx_id(b.m@);

    /// compose two transforms:  F' = F_other F,  B' = B B_other
    pub fn merge(&mut self, mut other: Trans)
        ensures final(self).fwd() == mmul(other.fwd(), old(self).fwd()), final(self).bwd() == mmul(old(self).bwd(), other.bwd()),
    //@body impl/Trans/merge machine=tgt_dim,src_dim
    //@+ sig
    //@| fn merge(&mut self, mut other: Trans<R>)
    //@+ pre-raw
    //@| let ghost o0 = other;
    //@+ post
    //@| lemma_ids_concat(old(self).f_mats@, o0.f_mats@); lemma_ids_concat(old(self).b_mats@, o0.b_mats@);
    //@| lemma_concat(ids(old(self).f_mats@), ids(o0.f_mats@)); lemma_concat(ids(old(self).b_mats@), ids(o0.b_mats@));

    /// compose with a permutation:  F' = P F,  B' = B P^-1   (P the row-permutation matrix of p, built by SpMat::from_row_perm / from_col_perm)
    pub fn append_perm(&mut self, p: PermView)
        ensures final(self).fwd() == mmul(pmat(p.p@), old(self).fwd()), final(self).bwd() == mmul(old(self).bwd(), pmat_inv(p.p@)),
    //@body impl/Trans/append_perm machine=tgt_dim
    //@+ sig
    //@| fn append_perm(&mut self, p: PermView)

    /// the composition as a new value
    pub fn merged(&self, other: &Trans) -> (r: Trans)
        ensures r.fwd() == mmul(other.fwd(), self.fwd()), r.bwd() == mmul(self.bwd(), other.bwd()),
    //@body impl/Trans/merged
    //@+ sig
    //@| fn merged(&self, other: &Trans<R>) -> Self

    /// f = fn * ... f1 * f0
    pub fn forward_mat(&self) -> (r: SpMat) ensures r.m@ == self.fwd(),
    //@body impl/Trans/forward_mat ring=1 q=res,f,b fold_loops=1 machine=len,tgt_dim loops=1
    //@+ sig
    //@| fn forward_mat(&self) -> SpMat<R>
    //@+ loop 0 header
    //@| self.f_mats.iter().rev().fold( SpMat::id(self.tgt_dim),
    //@+ pre
    //@| let s = ids(self.f_mats@); lemma_take_all(s); mx_id(fprod(s));
    //@| if s.len() == 1 { lemma_single(s[0]); assert(s =~= seq![s[0]]); }
    //@+ loop 0
    //@| invariant __k0 <= self.f_mats@.len(), mmul(__acc0.m@, fprod(ids(self.f_mats@).subrange(0, __k0 as int))) == self.fwd(),
    //@+ loop 0 end
    //@| lemma_take_step(ids(self.f_mats@), __k0 + 1); mx_assoc(res.m@, f.m@, fprod(ids(self.f_mats@).subrange(0, __k0 as int)));
    //@+ post
    //@| mx_id(__ret.m@);

    /// b = b0 * b1 * ... * bn
    pub fn backward_mat(&self) -> (r: SpMat) ensures r.m@ == self.bwd(),
    //@body impl/Trans/backward_mat ring=1 q=res,f,b fold_loops=1 machine=len,tgt_dim loops=1
    //@+ sig
    //@| fn backward_mat(&self) -> SpMat<R>
    //@+ loop 0 header
    //@| self.b_mats.iter().rev().fold( SpMat::id(self.tgt_dim),
    //@+ pre
    //@| let s = ids(self.b_mats@); lemma_take_all(s); mx_id(bprod(s));
    //@| if s.len() == 1 { lemma_single(s[0]); assert(s =~= seq![s[0]]); }
    //@+ loop 0
    //@| invariant __k0 <= self.b_mats@.len(), mmul(bprod(ids(self.b_mats@).subrange(0, __k0 as int)), __acc0.m@) == self.bwd(),
    //@+ loop 0 end
    //@| lemma_take_step(ids(self.b_mats@), __k0 + 1); mx_assoc(bprod(ids(self.b_mats@).subrange(0, __k0 as int)), b.m@, res.m@);
    //@+ post
    //@| mx_id(__ret.m@);

    /// v |-> F v
    pub fn forward(&self, v: &SpVec) -> (r: SpVec) ensures r.v@ == mact(self.fwd(), v.v@),
    //@body impl/Trans/forward ring=1 q=v,f qname=av fold_loops=1 machine=dim,src_dim loops=1
    //@+ sig
    //@| fn forward(&self, v: &SpVec<R>) -> SpVec<R>
    //@+ loop 0 header
    //@| self.f_mats.iter().fold(v.clone(),
    //@+ pre-raw
    //@| let ghost v0 = v.v@;
    //@+ pre
    //@| let s = ids(self.f_mats@); lemma_take_all(s); mx_act(mid(), mid(), v0);
    //@+ loop 0
    //@| invariant __k0 <= __n0, __n0 == self.f_mats@.len(), __acc0.v@ == mact(fprod(ids(self.f_mats@).subrange(0, __k0 as int)), v0),
    //@+ loop 0 end
    //@| lemma_take_step(ids(self.f_mats@), __k0 as int); mx_act(f.m@, fprod(ids(self.f_mats@).subrange(0, __k0 - 1)), v0);

    /// v |-> B v
    pub fn backward(&self, v: &SpVec) -> (r: SpVec) ensures r.v@ == mact(self.bwd(), v.v@),
    //@body impl/Trans/backward ring=1 q=v,f qname=av fold_loops=1 machine=dim,tgt_dim loops=1
    //@+ sig
    //@| fn backward(&self, v: &SpVec<R>) -> SpVec<R>
    //@+ loop 0 header
    //@| self.b_mats.iter().rev().fold(v.clone(),
    //@+ pre-raw
    //@| let ghost v0 = v.v@;
    //@+ pre
    //@| let s = ids(self.b_mats@); lemma_take_all(s);
    //@+ loop 0
    //@| invariant __k0 <= self.b_mats@.len(), mact(bprod(ids(self.b_mats@).subrange(0, __k0 as int)), __acc0.v@) == mact(self.bwd(), v0),
    //@+ loop 0 end
    //@| lemma_take_step(ids(self.b_mats@), __k0 + 1); mx_act(bprod(ids(self.b_mats@).subrange(0, __k0 as int)), f.m@, v.v@);
    //@+ post
    //@| mx_act(mid(), mid(), __ret.v@);

    /// collapse the lists: the denoted maps do not change
    pub fn reduce(&mut self)
        ensures final(self).fwd() == old(self).fwd(), final(self).bwd() == old(self).bwd(),
            final(self).f_mats@.len() <= 1, final(self).b_mats@.len() <= 1,
    //@body impl/Trans/reduce machine=len
    //@+ sig
    //@| fn reduce(&mut self)
    //@+ after-let f
    //@| lemma_single(f.m@);
    //@+ after-let b
    //@| lemma_single(b.m@);
    //@+ post
    //@| assert(forall|x: SpMat| ids(seq![x]) =~= seq![x.m@]);
    /// derive(Clone) — TRUSTED to copy both lists and the dimensions
    #[verifier::external_body] pub fn clone(&self) -> (r: Trans) ensures r == *self { unimplemented!() }
    #[verifier::external_body] pub fn tgt_dim(&self) -> (r: usize) ensures r == self.tgt_dim { unimplemented!() }

    /// restriction to a list of coordinates:  F' = E F,  B' = B E^T  with E the selection matrix of `indices`
    pub fn sub(&self, indices: &[usize]) -> (r: Trans)
        ensures r.fwd() == mmul(msel(indices@, self.tgt_dim as int), self.fwd()), r.bwd() == mmul(self.bwd(), mselt(indices@, self.tgt_dim as int)),
    //@body impl/Trans/sub iter_model=indices subst=R:ER
    //@+ sig
    //@| fn sub(&self, indices: &[usize]) -> Self
    //@+ closure 0 params
    //@| __p: (usize, &usize)
    //@+ closure 0
    //@| -> (o: (usize, usize, ER)) ensures o.0 == __p.0, o.1 == *__p.1, o.2.v() == r1()
    //@+ closure 1 params
    //@| __p: (usize, &usize)
    //@+ closure 1
    //@| -> (o: (usize, usize, ER)) ensures o.0 == *__p.1, o.1 == __p.0, o.2.v() == r1()
}
} // verus!
fn main() {}
