// Input source shared by the Kani crate (symbolic) and the native replay / witness-search
// crate (bytes from a Kani concrete playback, or a seeded boundary-biased generator).
// Every value is drawn through exactly one primitive call so that the order of Kani's
// concrete_vals matches the order of draws.

#[cfg(kani)]
pub struct Src;
#[cfg(kani)]
impl Src {
    pub fn new() -> Self { Src }
    pub fn u64(&mut self) -> u64 { kani::any() }
    pub fn usize(&mut self) -> usize { kani::any() }
    pub fn i64(&mut self) -> i64 { kani::any() }
    pub fn i32(&mut self) -> i32 { kani::any() }
    pub fn i128(&mut self) -> i128 { kani::any() }
    pub fn u8(&mut self) -> u8 { kani::any() }
    pub fn bool(&mut self) -> bool { kani::any() }
    /// an i64 in lo..=hi
    pub fn small(&mut self, lo: i64, hi: i64) -> i64 { let v: i64 = kani::any(); kani::assume(lo <= v && v <= hi); v }
}

#[cfg(not(kani))]
pub static LAST_DRAWS: std::sync::Mutex<(Vec<String>, Vec<Vec<u8>>)> = std::sync::Mutex::new((Vec::new(), Vec::new()));
#[cfg(not(kani))]
pub fn reset_last_draws() { let mut g = LAST_DRAWS.lock().unwrap_or_else(|e| e.into_inner()); g.0.clear(); g.1.clear(); }
#[cfg(not(kani))]
pub enum Src {
    Bytes { data: Vec<Vec<u8>>, pos: usize, pub_log: Vec<String> },
    Rng { state: u64, pub_log: Vec<String>, raw: Vec<Vec<u8>> },
}

#[cfg(not(kani))]
impl Src {
    pub fn from_bytes(data: Vec<Vec<u8>>) -> Self { Src::Bytes { data, pos: 0, pub_log: vec![] } }
    pub fn from_seed(seed: u64) -> Self { Src::Rng { state: seed.wrapping_mul(0x9E3779B97F4A7C15) | 1, pub_log: vec![], raw: vec![] } }
    pub fn raw(&self) -> Vec<Vec<u8>> { match self { Src::Bytes { data, .. } => data.clone(), Src::Rng { raw, .. } => raw.clone() } }
    pub fn log(&self) -> &Vec<String> { match self { Src::Bytes { pub_log, .. } | Src::Rng { pub_log, .. } => pub_log } }
    fn next_raw(&mut self) -> u64 {
        match self {
            Src::Rng { state, .. } => {
                // xorshift64*
                let mut x = *state;
                x ^= x >> 12; x ^= x << 25; x ^= x >> 27;
                *state = x;
                x.wrapping_mul(0x2545F4914F6CDD1D)
            }
            _ => 0,
        }
    }
    /// boundary-biased 128-bit value of the given width
    fn biased(&mut self, bits: u32) -> u128 {
        let r = self.next_raw();
        let full: u128 = ((self.next_raw() as u128) << 64) | self.next_raw() as u128;
        let mask: u128 = if bits >= 128 { u128::MAX } else { (1u128 << bits) - 1 };
        let v = match r % 8 {
            0 => (self.next_raw() % 70) as u128,                 // small
            1 => mask.wrapping_sub((self.next_raw() % 4) as u128), // near max
            2 => { let k = (self.next_raw() % bits as u64) as u32; (1u128 << k).wrapping_add((self.next_raw() % 3) as u128).wrapping_sub(1) } // 2^k-1,2^k,2^k+1
            3 => { let k = (self.next_raw() % bits as u64) as u32; full & ((1u128 << k) | ((1u128 << k) - 1)) } // random of k bits
            4 => (1u128 << (bits - 1)).wrapping_add((self.next_raw() % 3) as u128).wrapping_sub(1), // sign boundary
            5 => mask & (0u128.wrapping_sub((self.next_raw() % 70) as u128)), // small negative
            _ => full,
        };
        v & mask
    }
    fn take(&mut self, n: usize, bits: u32, ty: &str) -> u128 {
        let v = match self {
            Src::Bytes { data, pos, .. } => {
                let b = data.get(*pos).cloned().unwrap_or_default();
                *pos += 1;
                let mut v: u128 = 0;
                for (k, x) in b.iter().take(n).enumerate() { v |= (*x as u128) << (8 * k); }
                v
            }
            Src::Rng { .. } => self.biased(bits),
        };
        let shown = match ty {
            "i64" => format!("{}", v as u64 as i64),
            "i32" => format!("{}", v as u32 as i32),
            "i128" => format!("{}", v as i128),
            "bool" => format!("{}", v & 1 == 1),
            _ => format!("{}", v),
        };
        match self { Src::Bytes { pub_log, .. } | Src::Rng { pub_log, .. } => pub_log.push(format!("{ty}={shown}")) }
        // the draws of the sample in flight, readable from the watchdog thread of the native runner (a sample that does not return cannot hand back its Src)
        { let mut g = LAST_DRAWS.lock().unwrap_or_else(|e| e.into_inner()); g.0.push(format!("{ty}={shown}")); g.1.push((0..n).map(|k| ((v >> (8 * k)) & 0xff) as u8).collect()); }
        if let Src::Rng { raw, .. } = self { raw.push((0..n).map(|k| (v >> (8 * k)) as u8).collect()); }
        v
    }
    pub fn u64(&mut self) -> u64 { self.take(8, 64, "u64") as u64 }
    pub fn usize(&mut self) -> usize { self.take(8, 64, "usize") as usize }
    pub fn i64(&mut self) -> i64 { self.take(8, 64, "i64") as u64 as i64 }
    pub fn i32(&mut self) -> i32 { self.take(4, 32, "i32") as u32 as i32 }
    pub fn i128(&mut self) -> i128 { self.take(16, 128, "i128") as i128 }
    pub fn u8(&mut self) -> u8 { self.take(1, 8, "u8") as u8 }
    pub fn bool(&mut self) -> bool { self.take(1, 1, "bool") & 1 == 1 }
    /// an i64 in lo..=hi (uniform in the witness search; replayed bytes are reduced into the range)
    pub fn small(&mut self, lo: i64, hi: i64) -> i64 {
        let span = (hi - lo + 1) as u64;
        match self {
            Src::Rng { .. } => {
                let v = lo + (self.next_raw() % span) as i64;
                if let Src::Rng { raw, pub_log, .. } = self { raw.push((v as u64).to_le_bytes().to_vec()); pub_log.push(format!("i64={v}")); }
                { let mut g = LAST_DRAWS.lock().unwrap_or_else(|e| e.into_inner()); g.0.push(format!("i64={v}")); g.1.push((v as u64).to_le_bytes().to_vec()); }
                v
            }
            Src::Bytes { .. } => { let v = self.take(8, 64, "i64") as u64 as i64; if v < lo || v > hi { lo + (v.rem_euclid(span as i64)) } else { v } }
        }
    }
}

/// precondition of the contract under check
#[macro_export]
macro_rules! pre {
    ($c:expr) => {
        #[cfg(kani)]
        kani::assume($c);
        #[cfg(not(kani))]
        if !($c) { return Err("__pre__".to_string()); }
    };
}
/// one named postcondition clause (= one obligation)
#[macro_export]
macro_rules! ob {
    ($c:expr, $name:expr) => {
        #[cfg(kani)]
        kani::assert($c, $name);
        #[cfg(not(kani))]
        if !($c) { return Err($name.to_string()); }
    };
}
/// reachability witness behind the preconditions (vacuity guard)
#[macro_export]
macro_rules! reach {
    () => {
        #[cfg(kani)]
        kani::cover!(true, "reachable-after-preconditions");
    };
}
pub type R = Result<(), String>;
