// Contract overlay for the two LLL drivers as a whole (yui-matrix/src/dense/lll.rs), property C10, clause "returns H (B), P, P^-1 with
// H = P.A and P.P^-1 = I":   lll_in_place / lll_hnf_in_place  =  new ; process ; result.
// The ghost invariant p_ok (target == P.A0, P.P^-1 == I == P^-1.P for the transforms that are tracked) is established by LLLData::new and
// carried through every step of both drivers -- they change the matrices only through the three primitives proved in unit lll_prims
// (contracts copied here by //@contract-of) and, in LLLHNFCalc::result, through a row reversal by swaps.  Variant A: a run that returns
// satisfies the invariant (asserts, unwraps and a division by zero do not return); termination is NOT proved.
use vstd::prelude::*;
verus! {
//@include prelude/rt.rs
//@include prelude/er.rs
//@source yui-matrix/src/dense/lll.rs
//@include units/lll_prims/model.inc

/// number of rows of an abstract matrix
pub uninterp spec fn nr(a: int) -> nat;

pub type Row = usize;
pub type Col = usize;
impl ER {
    /// DivRound (C15) -- only its totality matters here
    #[verifier::external_body] pub fn div_round(&self, d: &ER) -> (q: ER) { unimplemented!() }
}
impl Mat {
    #[verifier::external_body] pub fn nrows(&self) -> (r: usize) ensures r == nr(self.m@) { unimplemented!() }
    #[verifier::external_body] pub fn id(n: usize) -> (r: Mat) ensures r.m@ == mid() { unimplemented!() }
    #[verifier::external_body] pub fn zero(sh: (usize, usize)) -> (r: Mat) { unimplemented!() }
}
#[verifier::external_body] pub fn vec_from_elem_(x: ER, n: usize) -> (v: Vec<ER>) ensures v@.len() == n, n <= isize::MAX { unimplemented!() }

/// what every driver step keeps: the step counter, the number of rows, which transforms are tracked
pub open spec fn same_frame(s0: LLLData, s1: LLLData) -> bool { s1.step == s0.step && s1.det@.len() == s0.det@.len() && s1.p.is_some() == s0.p.is_some() && s1.pinv.is_some() == s0.pinv.is_some() }

impl LLLData {
//@contract-of units/lll_prims/contract.rs mul_row,add_row_to,swap variant=A
    fn new(target: Mat, flags: [bool; 2]) -> (r: LLLData)
        ensures p_ok(r, target.m@), r.p.is_some() == flags[0], r.pinv.is_some() == flags[1], r.step == 1, r.det@.len() == nr(r.target.m@), r.det@.len() <= usize::MAX - 1,
    //@body impl/LLLData/new subst=R:ER
    //@+ post
    //@| mx_id(target.m@); mx_id(mid());
    fn result(self) -> (r: (Mat, Option<Mat>, Option<Mat>)) ensures r.0 == self.target, r.1 == self.p, r.2 == self.pinv,
    //@body impl/LLLData/result
    fn next(&mut self)
        requires old(self).step < usize::MAX,
        ensures final(self).step == old(self).step + 1, final(self).target == old(self).target, final(self).p == old(self).p, final(self).pinv == old(self).pinv, final(self).det == old(self).det,
    //@body impl/LLLData/next
    fn back(&mut self)
        ensures final(self).step <= old(self).step, final(self).step >= 1 || final(self).step == old(self).step, final(self).target == old(self).target, final(self).p == old(self).p, final(self).pinv == old(self).pinv, final(self).det == old(self).det,
    //@body impl/LLLData/back
    fn nrows(&self) -> (r: usize) ensures r == nr(self.target.m@),
    //@body impl/LLLData/nrows
    /// Gram-Schmidt tables from `orthogonalize`: touches det and lambda only -- ASSUMED (frame)
    #[verifier::external_body] fn setup(&mut self)
        ensures final(self).target == old(self).target, final(self).p == old(self).p, final(self).pinv == old(self).pinv, final(self).step == old(self).step, final(self).det@.len() == old(self).det@.len() { unimplemented!() }
    /// reads the tables only -- UNINTERPRETED
    #[verifier::external_body] fn lovasz_ok(&self, k: usize) -> (r: bool) { unimplemented!() }
    /// first non-zero column of row i (iterator chain over a nalgebra row view) -- UNINTERPRETED
    #[verifier::external_body] fn nz_col_in(&self, i: Row) -> (r: Option<Col>) { unimplemented!() }
    fn reduce(&mut self, i: Row, k: Row)
        requires i < old(self).det@.len(),
        ensures i < k, same_frame(*old(self), *final(self)), forall|a0: int| p_ok(*old(self), a0) ==> p_ok(*final(self), a0),
    //@body impl/LLLData/reduce ring=1 index2=1 machine=i,k
    //@+ sig
    //@| fn reduce(&mut self, i: Row, k: Row)
}

/// one driver step / a whole run: the invariant for every A0 is carried, the frame is kept except for the step counter
pub open spec fn carried(s0: LLLData, s1: LLLData) -> bool {
    s1.det@.len() == s0.det@.len() && s1.p.is_some() == s0.p.is_some() && s1.pinv.is_some() == s0.pinv.is_some()
    && forall|a0: int| p_ok(s0, a0) ==> p_ok(s1, a0)
}
//@include units/lll_flow/tok.inc
pub proof fn lemma_t_swap(t: Mat, p: Option<Mat>, pinv: Option<Mat>, t1: Mat, p1: Option<Mat>, pinv1: Option<Mat>, e: int, a0: int)
    requires t_ok(t, p, pinv, a0), mmul(e, e) == mid(), t1.m@ == mmul(e, t.m@), p.is_some() == p1.is_some(), pinv.is_some() == pinv1.is_some(),
        p.is_some() ==> opt(p1) == mmul(e, opt(p)), pinv.is_some() ==> opt(pinv1) == mmul(opt(pinv), e),
    ensures t_ok(t1, p1, pinv1, a0)
{
    if p.is_some() {
        let pp = opt(p);
        mx_assoc(e, pp, a0);
        if pinv.is_some() {
            let q = opt(pinv);
            mx_assoc(e, pp, mmul(q, e)); mx_assoc(pp, q, e); mx_id(e);
            mx_assoc(q, e, mmul(e, pp)); mx_assoc(e, e, pp); mx_id(pp);
        }
    }
}

//@item struct/LLLCalc subst=LLLData<R>:LLLData
//@item struct/LLLHNFCalc subst=LLLData<R>:LLLData

impl LLLCalc {
    fn new(target: Mat, with_trans: bool) -> (r: LLLCalc)
        ensures p_ok(r.data, target.m@), r.data.p.is_some() == with_trans, r.data.pinv.is_none(), r.data.step == 1, r.data.det@.len() == nr(r.data.target.m@), r.data.det@.len() <= usize::MAX - 1,
    //@body impl/LLLCalc/new
    /// termination (the LLL potential argument) is NOT proved: partial correctness only
    #[verifier::exec_allows_no_decreases_clause]
    fn process(&mut self)
        requires old(self).data.det@.len() == nr(old(self).data.target.m@), old(self).data.det@.len() <= usize::MAX - 1,
        ensures carried(old(self).data, final(self).data),
    //@body impl/LLLCalc/process loops=1
    //@+ pre-raw
    //@| let ghost s0 = self.data;
    //@+ loop 0
    //@| invariant self.data.step >= 1, self.data.det@.len() == m, m <= usize::MAX - 1, carried(s0, self.data),
    fn iterate(&mut self)
        requires 1 <= old(self).data.step < old(self).data.det@.len(), old(self).data.det@.len() <= usize::MAX - 1,
        ensures carried(old(self).data, final(self).data), final(self).data.step >= 1,
    //@body impl/LLLCalc/iterate for_range=1 loops=1 machine=i,k
    //@+ pre-raw
    //@| let ghost s0 = self.data;
    //@+ loop 0
    //@| invariant __it0 < k, k == self.data.step, 1 <= k < self.data.det@.len(), self.data.det@.len() <= usize::MAX - 1, carried(s0, self.data),
    fn result(self) -> (r: (Mat, Option<Mat>)) ensures r.0 == self.data.target, r.1 == self.data.p,
    //@body impl/LLLCalc/result
}

impl LLLHNFCalc {
    fn new(target: Mat, with_trans: [bool; 2]) -> (r: LLLHNFCalc)
        ensures p_ok(r.data, target.m@), r.data.p.is_some() == with_trans[0], r.data.pinv.is_some() == with_trans[1], r.data.step == 1, r.data.det@.len() == nr(r.data.target.m@), r.data.det@.len() <= usize::MAX - 1,
    //@body impl/LLLHNFCalc/new
    /// termination (the LLL potential argument) is NOT proved: partial correctness only
    #[verifier::exec_allows_no_decreases_clause]
    fn process(&mut self)
        requires old(self).data.det@.len() == nr(old(self).data.target.m@), old(self).data.det@.len() <= usize::MAX - 1,
        ensures carried(old(self).data, final(self).data),
    //@body impl/LLLHNFCalc/process loops=2 for_range=1 index2=1 machine=i,j
    //@+ pre-raw
    //@| let ghost s0 = self.data;
    //@+ loop 0
    //@| invariant self.data.step >= 1, self.data.det@.len() == m, m <= usize::MAX - 1, carried(s0, self.data),
    //@+ loop 1
    //@| invariant carried(s0, self.data),
    fn iterate(&mut self)
        requires 1 <= old(self).data.step < old(self).data.det@.len(), old(self).data.det@.len() <= usize::MAX - 1,
        ensures carried(old(self).data, final(self).data), final(self).data.step >= 1,
    //@body impl/LLLHNFCalc/iterate for_range=1 loops=1 machine=i,k
    //@+ pre-raw
    //@| let ghost s0 = self.data;
    //@+ loop 0
    //@| invariant __it0 < k, k == self.data.step, 1 <= k < self.data.det@.len(), self.data.det@.len() <= usize::MAX - 1, carried(s0, self.data),
    fn result(self) -> (r: (Mat, Option<Mat>, Option<Mat>))
        ensures r.1.is_some() == self.data.p.is_some(), r.2.is_some() == self.data.pinv.is_some(),
            forall|a0: int| p_ok(self.data, a0) ==> t_ok(r.0, r.1, r.2, a0),
    //@body impl/LLLHNFCalc/result for_range=1 loops=1 machine=i,j,m
    //@+ pre-raw
    //@| let ghost s0 = self.data;
    //@+ loop 0
    //@| invariant __hi0 == m / 2, p.is_some() == s0.p.is_some(), pinv.is_some() == s0.pinv.is_some(), forall|a0: int| p_ok(s0, a0) ==> t_ok(target, p, pinv, a0),
    //@+ loop 0 begin-raw
    //@| let ghost (t_, p_, q_) = (target, p, pinv);
    //@+ loop 0 end
    //@| mx_swap(i as int, j as int);
    //@| assert forall|a0: int| p_ok(s0, a0) implies t_ok(target, p, pinv, a0) by { lemma_t_swap(t_, p_, q_, target, p, pinv, e_swap(i as int, j as int), a0); }
    fn reduce(&mut self, i: Row, k: Row)
        requires i < old(self).data.det@.len(),
        ensures i < k, same_frame(old(self).data, final(self).data), forall|a0: int| p_ok(old(self).data, a0) ==> p_ok(final(self).data, a0),
    //@body impl/LLLHNFCalc/reduce ring=1 index2=1 machine=i,j,k
    //@+ sig
    //@| fn reduce(&mut self, i: Row, k: Row)
    fn is_ok(&self, k: usize) -> (r: bool)
    //@body impl/LLLHNFCalc/is_ok machine=j,k,l
}

/// C10 for lll: the returned (B, P) has B = P.A
pub fn lll_in_place(b: Mat, with_trans: bool) -> (r: (Mat, Option<Mat>))
    ensures r.1.is_some() == with_trans, r.1.is_some() ==> r.0.m@ == mmul(opt(r.1), b.m@),
//@body fn/lll_in_place
/// C10 for lll_hnf: the returned (H, P, P^-1) has H = P.A and P.P^-1 = I = P^-1.P
pub fn lll_hnf_in_place(b: Mat, with_trans: [bool; 2]) -> (r: (Mat, Option<Mat>, Option<Mat>))
    ensures r.1.is_some() == with_trans[0], r.2.is_some() == with_trans[1], t_ok(r.0, r.1, r.2, b.m@),
//@body fn/lll_hnf_in_place
} // verus!
fn main() {}
