// ---- prelude/er.rs : model `ER` — an ABSTRACT Euclidean domain (DESIGN.md §1.6) ----
// Carrier: element identifiers (int), every operation uninterpreted.  Nothing specific to Z
// is available to the prover (in particular NOT "a unit is its own inverse").
// TRUSTED: (1) the axioms below (commutative ring with 1, integral domain, Euclidean function,
// normalising unit) and (2) the polynomial identities of section "ring identities", each of which
// has a machine-checked integer twin `*_int` in this file: an identity between expressions built
// from + * neg 0 1 that holds for all integers is a formal polynomial identity, hence holds in
// every commutative ring.
pub uninterp spec fn radd(a: int, b: int) -> int;
pub uninterp spec fn rmul(a: int, b: int) -> int;
pub uninterp spec fn rneg(a: int) -> int;
pub uninterp spec fn r0() -> int;
pub uninterp spec fn r1() -> int;
pub uninterp spec fn rnorm(a: int) -> nat;
pub uninterp spec fn rdiv(a: int, b: int) -> int;
pub uninterp spec fn rrem(a: int, b: int) -> int;
pub uninterp spec fn nunit(a: int) -> int;
pub open spec fn rsub(a: int, b: int) -> int { radd(a, rneg(b)) }
pub open spec fn dvd(d: int, n: int) -> bool { exists|k: int| n == #[trigger] rmul(k, d) }
pub open spec fn is_unit(u: int) -> bool { exists|w: int| #[trigger] rmul(u, w) == r1() }
pub open spec fn is_norm(a: int) -> bool { nunit(a) == r1() }
pub open spec fn assoc(a: int, b: int) -> bool { dvd(a, b) && dvd(b, a) }
/// d is a greatest common divisor of x and y
pub open spec fn is_gcd(d: int, x: int, y: int) -> bool {
    dvd(d, x) && dvd(d, y) && forall|c: int| #![trigger dvd(c, d)] (dvd(c, x) && dvd(c, y)) ==> dvd(c, d)
}

// ---- axioms: commutative ring with 1 ----
#[verifier::external_body] pub proof fn ax_add_comm(a: int, b: int) ensures radd(a, b) == radd(b, a) {}
#[verifier::external_body] pub proof fn ax_add_assoc(a: int, b: int, c: int) ensures radd(radd(a, b), c) == radd(a, radd(b, c)) {}
#[verifier::external_body] pub proof fn ax_add_zero(a: int) ensures radd(a, r0()) == a, radd(r0(), a) == a {}
#[verifier::external_body] pub proof fn ax_add_neg(a: int) ensures radd(a, rneg(a)) == r0() {}
#[verifier::external_body] pub proof fn ax_mul_comm(a: int, b: int) ensures rmul(a, b) == rmul(b, a) {}
#[verifier::external_body] pub proof fn ax_mul_assoc(a: int, b: int, c: int) ensures rmul(rmul(a, b), c) == rmul(a, rmul(b, c)) {}
#[verifier::external_body] pub proof fn ax_mul_one(a: int) ensures rmul(a, r1()) == a, rmul(r1(), a) == a {}
#[verifier::external_body] pub proof fn ax_distrib(a: int, b: int, c: int) ensures rmul(a, radd(b, c)) == radd(rmul(a, b), rmul(a, c)), rmul(radd(b, c), a) == radd(rmul(b, a), rmul(c, a)) {}
// ---- axioms: integral domain ----
#[verifier::external_body] pub proof fn ax_domain(a: int, b: int) ensures rmul(a, b) == r0() ==> (a == r0() || b == r0()) {}
#[verifier::external_body] pub proof fn ax_nontrivial() ensures r0() != r1() {}
// ---- axioms: Euclidean function ----
#[verifier::external_body] pub proof fn ax_euclid(a: int, b: int)
    requires b != r0()
    ensures a == radd(rmul(rdiv(a, b), b), rrem(a, b)), rrem(a, b) == r0() || rnorm(rrem(a, b)) < rnorm(b) {}
/// d(b) <= d(c b) for c b != 0 (property of the minimal Euclidean function; |.| on Z, N on Z[i], Z[w], degree on F[x])
#[verifier::external_body] pub proof fn ax_norm_mono(c: int, b: int)
    requires rmul(c, b) != r0()
    ensures rnorm(b) <= rnorm(rmul(c, b)) {}
/// strict for a non-unit factor
#[verifier::external_body] pub proof fn ax_norm_strict(c: int, b: int)
    requires rmul(c, b) != r0(), !is_unit(c)
    ensures rnorm(b) < rnorm(rmul(c, b)) {}
// ---- axioms: normalising unit (contract every concrete type has to meet) ----
#[verifier::external_body] pub proof fn ax_nunit_unit(a: int) ensures is_unit(nunit(a)) {}
#[verifier::external_body] pub proof fn ax_nunit_normalizes(a: int) ensures is_norm(rmul(a, nunit(a))) {}
#[verifier::external_body] pub proof fn ax_norm_unique(a: int, b: int) requires assoc(a, b), is_norm(a), is_norm(b) ensures a == b {}
#[verifier::external_body] pub proof fn ax_nunit_zero() ensures nunit(r0()) == r1() {}

// ---- ring identities (each: uninterpreted statement TRUSTED, integer twin machine-checked) ----
#[verifier::external_body] pub proof fn id_mul_zero(a: int) ensures rmul(a, r0()) == r0(), rmul(r0(), a) == r0() {}
proof fn id_mul_zero_int(a: int) by (nonlinear_arith)
    ensures a * 0 == 0, 0 * a == 0 {}
#[verifier::external_body] pub proof fn id_sub_cancel(m: int, r: int) ensures rsub(radd(m, r), m) == r {}
proof fn id_sub_cancel_int(m: int, r: int) ensures (m + r) + (-m) == r {}
#[verifier::external_body] pub proof fn id_sub_self(a: int) ensures rsub(a, a) == r0() {}
proof fn id_sub_self_int(a: int) ensures a + (-a) == 0 {}
#[verifier::external_body] pub proof fn id_sub_mul(k: int, q: int, b: int) ensures rsub(rmul(k, b), rmul(q, b)) == rmul(rsub(k, q), b) {}
proof fn id_sub_mul_int(k: int, q: int, b: int) by (nonlinear_arith)
    ensures k * b + (-(q * b)) == (k + (-q)) * b {}
#[verifier::external_body] pub proof fn id_add_mul(k: int, q: int, b: int) ensures radd(rmul(k, b), rmul(q, b)) == rmul(radd(k, q), b) {}
proof fn id_add_mul_int(k: int, q: int, b: int) by (nonlinear_arith)
    ensures k * b + q * b == (k + q) * b {}
#[verifier::external_body] pub proof fn id_neg_mul(k: int, b: int) ensures rneg(rmul(k, b)) == rmul(rneg(k), b) {}
proof fn id_neg_mul_int(k: int, b: int) by (nonlinear_arith)
    ensures -(k * b) == (-k) * b {}
/// Bezout step: x = s0 X + t0 Y, y = s1 X + t1 Y  ==>  x - q y = (s0 - q s1) X + (t0 - q t1) Y
#[verifier::external_body] pub proof fn id_bezout_step(xx: int, yy: int, s0: int, t0: int, s1: int, t1: int, q: int)
    ensures rsub(radd(rmul(s0, xx), rmul(t0, yy)), rmul(q, radd(rmul(s1, xx), rmul(t1, yy))))
        == radd(rmul(rsub(s0, rmul(q, s1)), xx), rmul(rsub(t0, rmul(q, t1)), yy)) {}
proof fn id_bezout_step_int(xx: int, yy: int, s0: int, t0: int, s1: int, t1: int, q: int) by (nonlinear_arith)
    ensures (s0 * xx + t0 * yy) + (-(q * (s1 * xx + t1 * yy))) == (s0 + (-(q * s1))) * xx + (t0 + (-(q * t1))) * yy {}
/// (s x + t y) u = (s u) x + (t u) y
#[verifier::external_body] pub proof fn id_scale_comb(s: int, x: int, t: int, y: int, u: int)
    ensures rmul(radd(rmul(s, x), rmul(t, y)), u) == radd(rmul(rmul(s, u), x), rmul(rmul(t, u), y)) {}
proof fn id_scale_comb_int(s: int, x: int, t: int, y: int, u: int) by (nonlinear_arith)
    ensures (s * x + t * y) * u == (s * u) * x + (t * u) * y {}
#[verifier::external_body] pub proof fn id_one_zero_comb(x: int, y: int)
    ensures radd(rmul(r1(), x), rmul(r0(), y)) == x, radd(rmul(r0(), x), rmul(r1(), y)) == y {}
proof fn id_one_zero_comb_int(x: int, y: int) by (nonlinear_arith)
    ensures 1 * x + 0 * y == x, 0 * x + 1 * y == y {}
#[verifier::external_body] pub proof fn id_unit_comb(u: int, x: int, y: int)
    ensures radd(rmul(u, x), rmul(r0(), y)) == rmul(x, u), radd(rmul(r0(), x), rmul(u, y)) == rmul(y, u) {}
proof fn id_unit_comb_int(u: int, x: int, y: int) ensures u * x + 0 * y == x * u, 0 * x + u * y == y * u {}
/// x (y' ) with y = y' g :  (x y') g = x y
#[verifier::external_body] pub proof fn id_lcm(x: int, yp: int, g: int) ensures rmul(rmul(x, yp), g) == rmul(x, rmul(yp, g)) {}
proof fn id_lcm_int(x: int, yp: int, g: int) by (nonlinear_arith)
    ensures (x * yp) * g == x * (yp * g) {}
#[verifier::external_body] pub proof fn id_mul_swap(a: int, b: int, c: int) ensures rmul(rmul(a, b), c) == rmul(rmul(a, c), b) {}
proof fn id_mul_swap_int(a: int, b: int, c: int) by (nonlinear_arith)
    ensures (a * b) * c == (a * c) * b {}

/// w (a d) = (a w) d
#[verifier::external_body] pub proof fn id_inv_cancel(w: int, a: int, d: int) ensures rmul(w, rmul(a, d)) == rmul(rmul(a, w), d) {}
proof fn id_inv_cancel_int(w: int, a: int, d: int) by (nonlinear_arith)
    ensures w * (a * d) == (a * w) * d {}
/// (x - y) z = x z - y z
#[verifier::external_body] pub proof fn id_sub_mul_right(x: int, y: int, z: int) ensures rmul(rsub(x, y), z) == rsub(rmul(x, z), rmul(y, z)) {}
proof fn id_sub_mul_right_int(x: int, y: int, z: int) by (nonlinear_arith)
    ensures (x + (-y)) * z == x * z + (-(y * z)) {}
/// x - y = 0  ==>  x = y      (x = (x - y) + y)
#[verifier::external_body] pub proof fn id_sub_add_back(x: int, y: int) ensures radd(rsub(x, y), y) == x {}
proof fn id_sub_add_back_int(x: int, y: int) ensures (x + (-y)) + y == x {}
/// (m c) p = m (p c)   and   a p c-regrouping used by the valuation kernel
#[verifier::external_body] pub proof fn id_pow_shift(m: int, c: int, p: int) ensures rmul(rmul(m, c), p) == rmul(m, rmul(p, c)), rmul(rmul(m, p), c) == rmul(m, rmul(p, c)) {}
proof fn id_pow_shift_int(m: int, c: int, p: int) by (nonlinear_arith)
    ensures (m * c) * p == m * (p * c), (m * p) * c == m * (p * c) {}

/// 2x2 adjugate identities: [[a,b],[c,d]] [[d,-b],[-c,a]] = det I  (and the reverse product)
#[verifier::external_body] pub proof fn id_adj(a: int, b: int, c: int, d: int)
    ensures
        radd(rmul(a, d), rmul(b, rneg(c))) == rsub(rmul(a, d), rmul(b, c)),
        radd(rmul(a, rneg(b)), rmul(b, a)) == r0(),
        radd(rmul(c, d), rmul(d, rneg(c))) == r0(),
        radd(rmul(c, rneg(b)), rmul(d, a)) == rsub(rmul(a, d), rmul(b, c)),
        radd(rmul(d, a), rmul(rneg(b), c)) == rsub(rmul(a, d), rmul(b, c)),
        radd(rmul(d, b), rmul(rneg(b), d)) == r0(),
        radd(rmul(rneg(c), a), rmul(a, c)) == r0(),
        radd(rmul(rneg(c), b), rmul(a, d)) == rsub(rmul(a, d), rmul(b, c)) {}
proof fn id_adj_int(a: int, b: int, c: int, d: int) by (nonlinear_arith)
    ensures
        a * d + b * (-c) == a * d + (-(b * c)),
        a * (-b) + b * a == 0,
        c * d + d * (-c) == 0,
        c * (-b) + d * a == a * d + (-(b * c)),
        d * a + (-b) * c == a * d + (-(b * c)),
        d * b + (-b) * d == 0,
        (-c) * a + a * c == 0,
        (-c) * b + a * d == a * d + (-(b * c)) {}

/// (s a + t b) d = s (a d) + t (b d)      and      p - t (-b) = p + t b
#[verifier::external_body] pub proof fn id_det_expand(s: int, t: int, a: int, b: int, d: int)
    ensures rmul(radd(rmul(s, a), rmul(t, b)), d) == radd(rmul(s, rmul(a, d)), rmul(t, rmul(b, d))),
        rsub(rmul(s, a), rmul(t, rneg(b))) == radd(rmul(s, a), rmul(t, b)) {}
proof fn id_det_expand_int(s: int, t: int, a: int, b: int, d: int) by (nonlinear_arith)
    ensures (s * a + t * b) * d == s * (a * d) + t * (b * d), s * a + (-(t * (-b))) == s * a + t * b {}
/// 1 (s a) - 1 (-(t b)) = s a + t b
#[verifier::external_body] pub proof fn id_det_diag(s: int, t: int, a: int, b: int)
    ensures rsub(rmul(r1(), rmul(s, a)), rmul(r1(), rneg(rmul(t, b)))) == radd(rmul(s, a), rmul(t, b)) {}
proof fn id_det_diag_int(s: int, t: int, a: int, b: int) by (nonlinear_arith)
    ensures 1 * (s * a) + (-(1 * (-(t * b)))) == s * a + t * b {}

/// (y - p) - t = y - (p + t)      and      x - 0 = x
#[verifier::external_body] pub proof fn id_sub_sub(y: int, p: int, t: int) ensures rsub(rsub(y, p), t) == rsub(y, radd(p, t)), rsub(y, r0()) == y {}
proof fn id_sub_sub_int(y: int, p: int, t: int) ensures (y + (-p)) + (-t) == y + (-(p + t)), y + (-0int) == y {}
/// u (b w) = b (u w)
#[verifier::external_body] pub proof fn id_mul_swap3(u: int, b: int, w: int) ensures rmul(u, rmul(b, w)) == rmul(b, rmul(u, w)) {}
proof fn id_mul_swap3_int(u: int, b: int, w: int) by (nonlinear_arith) ensures u * (b * w) == b * (u * w) {}

#[verifier::external_body] pub proof fn id_neg_zero() ensures rneg(r0()) == r0() {}
proof fn id_neg_zero_int() ensures -0int == 0int {}

// ---- derived divisibility lemmas (proved from the above) ----
pub proof fn lemma_dvd_refl(a: int) ensures dvd(a, a) { ax_mul_one(a); assert(a == rmul(r1(), a)); }
pub proof fn lemma_dvd_zero(d: int) ensures dvd(d, r0()) { id_mul_zero(d); assert(r0() == rmul(r0(), d)); }
pub proof fn lemma_zero_dvd(n: int) requires dvd(r0(), n) ensures n == r0() {
    let k = choose|k: int| n == rmul(k, r0()); id_mul_zero(k);
}
pub proof fn lemma_dvd_trans(a: int, b: int, c: int) requires dvd(a, b), dvd(b, c) ensures dvd(a, c) {
    let k = choose|k: int| b == rmul(k, a); let l = choose|l: int| c == rmul(l, b);
    ax_mul_assoc(l, k, a); assert(c == rmul(rmul(l, k), a));
}
pub proof fn lemma_dvd_add(d: int, a: int, b: int) requires dvd(d, a), dvd(d, b) ensures dvd(d, radd(a, b)) {
    let k = choose|k: int| a == rmul(k, d); let l = choose|l: int| b == rmul(l, d);
    id_add_mul(k, l, d); assert(radd(a, b) == rmul(radd(k, l), d));
}
pub proof fn lemma_dvd_sub(d: int, a: int, b: int) requires dvd(d, a), dvd(d, b) ensures dvd(d, rsub(a, b)) {
    let k = choose|k: int| a == rmul(k, d); let l = choose|l: int| b == rmul(l, d);
    id_sub_mul(k, l, d); assert(rsub(a, b) == rmul(rsub(k, l), d));
}
pub proof fn lemma_dvd_mul_left(d: int, a: int, c: int) requires dvd(d, a) ensures dvd(d, rmul(c, a)) {
    let k = choose|k: int| a == rmul(k, d); ax_mul_assoc(c, k, d); assert(rmul(c, a) == rmul(rmul(c, k), d));
}
pub proof fn lemma_dvd_mul_right(d: int, a: int, c: int) requires dvd(d, a) ensures dvd(d, rmul(a, c)) {
    lemma_dvd_mul_left(d, a, c); ax_mul_comm(a, c);
}
/// x = q y + r : the common divisors of (x, y) are those of (y, r)
pub proof fn lemma_cd_step(d: int, x: int, y: int, q: int, r: int)
    requires x == radd(rmul(q, y), r)
    ensures (dvd(d, x) && dvd(d, y)) <==> (dvd(d, y) && dvd(d, r))
{
    if dvd(d, y) {
        lemma_dvd_mul_left(d, y, q);
        if dvd(d, x) { lemma_dvd_sub(d, x, rmul(q, y)); id_sub_cancel(rmul(q, y), r); }
        if dvd(d, r) { lemma_dvd_add(d, rmul(q, y), r); }
    }
}
/// multiplying by a unit gives an associate
pub proof fn lemma_unit_assoc(a: int, u: int) requires is_unit(u) ensures assoc(a, rmul(a, u)) {
    let w = choose|w: int| rmul(u, w) == r1();
    ax_mul_comm(a, u); assert(rmul(a, u) == rmul(u, a));  // dvd(a, a u)
    ax_mul_assoc(a, u, w); ax_mul_one(a); ax_mul_comm(rmul(a, u), w);
    assert(a == rmul(w, rmul(a, u)));
}
/// b != 0:  rrem(a, b) == 0  <==>  b | a
pub proof fn lemma_rem_zero_iff_dvd(a: int, b: int) requires b != r0() ensures (rrem(a, b) == r0()) <==> dvd(b, a) {
    ax_euclid(a, b);
    let q = rdiv(a, b); let r = rrem(a, b);
    if r == r0() { ax_add_zero(rmul(q, b)); assert(a == rmul(q, b)); }
    if dvd(b, a) && r != r0() {
        let k = choose|k: int| a == rmul(k, b);
        lemma_dvd_refl(b); lemma_dvd_mul_left(b, b, q);
        assert(dvd(b, rmul(k, b)));
        lemma_dvd_sub(b, a, rmul(q, b)); id_sub_cancel(rmul(q, b), r);
        let m = choose|m: int| r == rmul(m, b);
        ax_norm_mono(m, b);
    }
}
/// cancellation in an integral domain: x z == y z, z != 0  ==>  x == y
pub proof fn lemma_cancel(x: int, y: int, z: int) requires rmul(x, z) == rmul(y, z), z != r0() ensures x == y {
    id_sub_mul_right(x, y, z); id_sub_self(rmul(y, z));
    ax_domain(rsub(x, y), z);
    id_sub_add_back(x, y); ax_add_zero(y);
}
/// powers
pub open spec fn rpow(c: int, k: nat) -> int decreases k { if k == 0 { r1() } else { rmul(rpow(c, (k - 1) as nat), c) } }
pub proof fn lemma_rpow_nonzero(c: int, k: nat) requires c != r0() ensures rpow(c, k) != r0() decreases k {
    if k == 0 { ax_nontrivial(); } else { lemma_rpow_nonzero(c, (k - 1) as nat); ax_domain(rpow(c, (k - 1) as nat), c); }
}
/// the Euclidean measure used for termination of  while !y.is_zero()
pub open spec fn emeasure(y: int) -> nat { if y == r0() { 0 } else { rnorm(y) + 1 } }

// ---- exec model ----
pub struct ER { pub e: Ghost<int> }
pub trait ERL: Sized { spec fn v(&self) -> int; }
impl ERL for ER { open spec fn v(&self) -> int { self.e@ } }
impl ERL for &ER { open spec fn v(&self) -> int { self.e@ } }
impl ERL for &&ER { open spec fn v(&self) -> int { self.e@ } }
impl ERL for &mut ER { open spec fn v(&self) -> int { self.e@ } }

#[verifier::external_body] pub fn add_<A: ERL, B: ERL>(a: A, b: B) -> (r: ER) ensures r.v() == radd(a.v(), b.v()) { unimplemented!() }
#[verifier::external_body] pub fn sub_<A: ERL, B: ERL>(a: A, b: B) -> (r: ER) ensures r.v() == rsub(a.v(), b.v()) { unimplemented!() }
#[verifier::external_body] pub fn mul_<A: ERL, B: ERL>(a: A, b: B) -> (r: ER) ensures r.v() == rmul(a.v(), b.v()) { unimplemented!() }
#[verifier::external_body] pub fn neg_<A: ERL>(a: A) -> (r: ER) ensures r.v() == rneg(a.v()) { unimplemented!() }
#[verifier::external_body] pub fn div_<A: ERL, B: ERL>(a: A, b: B) -> (r: ER) requires b.v() != r0() ensures r.v() == rdiv(a.v(), b.v()) { unimplemented!() }
#[verifier::external_body] pub fn rem_<A: ERL, B: ERL>(a: A, b: B) -> (r: ER) requires b.v() != r0() ensures r.v() == rrem(a.v(), b.v()) { unimplemented!() }
#[verifier::external_body] pub fn eq_<A: ERL, B: ERL>(a: A, b: B) -> (r: bool) ensures r == (a.v() == b.v()) { unimplemented!() }
#[verifier::external_body] pub fn ne_<A: ERL, B: ERL>(a: A, b: B) -> (r: bool) ensures r == (a.v() != b.v()) { unimplemented!() }
#[verifier::external_body] pub fn div_assign_<B: ERL>(a: &mut ER, b: B) requires b.v() != r0() ensures (*final(a)).v() == rdiv((*old(a)).v(), b.v()) { unimplemented!() }
#[verifier::external_body] pub fn mul_assign_<B: ERL>(a: &mut ER, b: B) ensures (*final(a)).v() == rmul((*old(a)).v(), b.v()) { unimplemented!() }
#[verifier::external_body] pub fn add_assign_<B: ERL>(a: &mut ER, b: B) ensures (*final(a)).v() == radd((*old(a)).v(), b.v()) { unimplemented!() }
#[verifier::external_body] pub fn sub_assign_<B: ERL>(a: &mut ER, b: B) ensures (*final(a)).v() == rsub((*old(a)).v(), b.v()) { unimplemented!() }

impl ER {
    #[verifier::external_body] pub fn clone(&self) -> (r: ER) ensures r.v() == self.v() { unimplemented!() }
    #[verifier::external_body] pub fn zero() -> (r: ER) ensures r.v() == r0() { unimplemented!() }
    #[verifier::external_body] pub fn one() -> (r: ER) ensures r.v() == r1() { unimplemented!() }
    #[verifier::external_body] pub fn is_zero(&self) -> (r: bool) ensures r == (self.v() == r0()) { unimplemented!() }
    #[verifier::external_body] pub fn is_one(&self) -> (r: bool) ensures r == (self.v() == r1()) { unimplemented!() }
    #[verifier::external_body] pub fn normalizing_unit(&self) -> (r: ER) ensures r.v() == nunit(self.v()) { unimplemented!() }
    #[verifier::external_body] pub fn is_unit(&self) -> (r: bool) ensures r == is_unit(self.v()) { unimplemented!() }
    #[verifier::external_body] pub fn inv(&self) -> (r: Option<ER>)
        ensures match r { Some(w) => rmul(self.v(), w.v()) == r1(), None => !is_unit(self.v()) } { unimplemented!() }
}
