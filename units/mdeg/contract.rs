// Contract overlay for MultiDeg<I> (yui/src/types/poly/mdeg.rs): the exponent vector of a monomial in
// x_0, x_1, ... stored sparsely (BTreeMap index -> exponent).  Property C16, mechanisms "multi-degree map
// reduced of zero exponents" and "lex / grlex comparison": a value never stores a zero exponent; sum,
// difference, comparison are those of the exponent vector  at : index -> Z  (0 outside the stored keys);
// lex and graded lex are total orders compatible with multiplication (= addition of exponent vectors).
// Exponents I := Z (mathematical integers: sums are assumed representable, as for Var / Var2 / Var3).
use vstd::prelude::*;
use core::cmp::Ordering;
verus! {
//@include prelude/rt.rs
//@include prelude/z.rs
//@source yui/src/types/poly/mdeg.rs

// ---------------------------------------------------------------- BTreeMap<usize, I> model (ASSUMED std contract)
/// es lists every entry of m exactly once, in increasing key order (BTreeMap iteration order)
pub open spec fn sorted_entries(es: Seq<(int, int)>, m: Map<int, int>) -> bool {
    &&& forall|i: int| 0 <= i < es.len() ==> m.dom().contains(#[trigger] es[i].0) && m[es[i].0] == es[i].1
    &&& forall|i: int, j: int| 0 <= i < j < es.len() ==> #[trigger] es[i].0 < #[trigger] es[j].0
    &&& forall|k: int| m.dom().contains(k) ==> exists|i: int| 0 <= i < es.len() && #[trigger] es[i].0 == k
}
pub struct BMap { pub m: Ghost<Map<int, int>> }
pub struct BIter<'a> { pub src: &'a BMap, pub es: Ghost<Seq<(int, int)>>, pub pos: Ghost<int> }
pub struct KIter<'a> { pub src: &'a BMap }
impl<'a> BIter<'a> {
    pub fn into_iter(self) -> (r: Self) ensures r == self { self }
    #[verifier::external_body] pub fn next(&mut self) -> (r: Option<(&'a usize, &'a Z)>)
        requires 0 <= old(self).pos@ <= old(self).es@.len()
        ensures final(self).es@ == old(self).es@, final(self).src == old(self).src,
            old(self).pos@ < old(self).es@.len() ==> (final(self).pos@ == old(self).pos@ + 1 && r.is_some()
                && *r.unwrap().0 as int == old(self).es@[old(self).pos@].0 && r.unwrap().1.v() == old(self).es@[old(self).pos@].1),
            old(self).pos@ >= old(self).es@.len() ==> (final(self).pos@ == old(self).pos@ && r.is_none()),
    { unimplemented!() }
}
impl<'a> KIter<'a> {
    #[verifier::external_body] pub fn min(self) -> (r: Option<&'a usize>)
        ensures r.is_none() <==> self.src.m@.dom() =~= Set::<int>::empty(),
            r.is_some() ==> (self.src.m@.dom().contains(*r.unwrap() as int) && forall|k: int| self.src.m@.dom().contains(k) ==> *r.unwrap() as int <= k),
    { unimplemented!() }
    #[verifier::external_body] pub fn max(self) -> (r: Option<&'a usize>)
        ensures r.is_none() <==> self.src.m@.dom() =~= Set::<int>::empty(),
            r.is_some() ==> (self.src.m@.dom().contains(*r.unwrap() as int) && forall|k: int| self.src.m@.dom().contains(k) ==> k <= *r.unwrap() as int),
    { unimplemented!() }
}
impl BMap {
    pub open spec fn at(&self, k: int) -> int { mat(self.m@, k) }
    /// keys are usize values
    pub open spec fn keys_ok(&self) -> bool { forall|k: int| self.m@.dom().contains(k) ==> 0 <= k <= usize::MAX }
    #[verifier::external_body] pub fn new() -> (r: BMap) ensures r.m@ =~= Map::<int, int>::empty() { unimplemented!() }
    #[verifier::external_body] pub fn contains_key(&self, x: &usize) -> (r: bool) ensures r == self.m@.dom().contains(*x as int) { unimplemented!() }
    #[verifier::external_body] pub fn get(&self, x: &usize) -> (r: Option<&Z>)
        ensures r.is_some() == self.m@.dom().contains(*x as int), r.is_some() ==> r.unwrap().v() == self.m@[*x as int] { unimplemented!() }
    #[verifier::external_body] pub fn get_mut(&mut self, x: &usize) -> (r: Option<&mut Z>)
        ensures r.is_some() == old(self).m@.dom().contains(*x as int),
            r.is_some() ==> (r.unwrap().v() == old(self).m@[*x as int] && final(self).m@ == old(self).m@.insert(*x as int, (*final(r.unwrap())).v())),
            r.is_none() ==> final(self).m@ == old(self).m@,
    { unimplemented!() }
    #[verifier::external_body] pub fn insert(&mut self, x: usize, r: Z) -> (o: Option<Z>)
        ensures final(self).m@ == old(self).m@.insert(x as int, r.v()) { unimplemented!() }
    #[verifier::external_body] pub fn len(&self) -> (r: usize) ensures self.m@.dom().finite(), r == self.m@.dom().len() { unimplemented!() }
    #[verifier::external_body] pub fn is_empty(&self) -> (r: bool) ensures r == (self.m@.dom() =~= Set::<int>::empty()) { unimplemented!() }
    #[verifier::external_body] pub fn iter(&self) -> (r: BIter<'_>) ensures r.pos@ == 0, sorted_entries(r.es@, self.m@), r.src == self { unimplemented!() }
    #[verifier::external_body] pub fn keys(&self) -> (r: KIter<'_>) ensures r.src == self { unimplemented!() }
}

//@item struct/MultiDeg subst=BTreeMap<usize,I>:BMap,I:Z

impl MultiDeg {
    /// the exponent vector denoted
    pub open spec fn at(&self, k: int) -> int { self.data.at(k) }
    /// representation invariant: no zero exponent stored, keys are indices, the cached zero is zero
    pub open spec fn reduced(&self) -> bool { forall|k: int| self.data.m@.dom().contains(k) ==> self.data.m@[k] != 0 }
    pub open spec fn wf(&self) -> bool { self._zero.v() == 0 }

    /// ASSUMED (BTreeMap::retain with closure |_, i| !i.is_zero()): drops exactly the zero entries
    #[verifier::external_body] pub fn reduce(&mut self)
        ensures final(self)._zero == old(self)._zero, final(self).reduced(),
            forall|k: int| final(self).data.m@.dom().contains(k) <==> (old(self).data.m@.dom().contains(k) && old(self).data.m@[k] != 0),
            forall|k: int| final(self).data.m@.dom().contains(k) ==> final(self).data.m@[k] == old(self).data.m@[k],
            forall|k: int| final(self).at(k) == old(self).at(k),   // (consequence, see lemma_reduce_at)
    { unimplemented!() }

    pub fn new_reduced(data: BMap) -> (r: MultiDeg) ensures r.data == data, r.wf(),
    //@body impl/MultiDeg/new_reduced subst=I:Z
    pub fn empty() -> (r: MultiDeg) ensures r.wf(), r.reduced(), forall|k: int| r.at(k) == 0, r.data.m@ =~= Map::<int, int>::empty(),
    //@body impl/MultiDeg/empty subst=BTreeMap:BMap

    // delegate! { to self.data { #[call(len)] ninds; iter } } — expansion stated by hand, input pinned
    //@expect pub fn ninds(&self) -> usize;
    //@expect pub fn iter(&self) -> impl Iterator<Item = (&usize, &I)>;
    pub fn ninds(&self) -> (r: usize) ensures self.data.m@.dom().finite(), r == self.data.m@.dom().len() { self.data.len() }
    pub fn iter(&self) -> (r: BIter<'_>) ensures r.pos@ == 0, sorted_entries(r.es@, self.data.m@), r.src == &self.data { self.data.iter() }

    pub fn indices(&self) -> (r: KIter<'_>) ensures r.src == &self.data,
    //@body impl/MultiDeg/indices
    //@+ sig
    //@| fn indices(&self) -> impl Iterator<Item = &usize>

    pub fn min_index(&self) -> (r: Option<usize>)
        ensures r.is_none() <==> self.data.m@.dom() =~= Set::<int>::empty(),
            r.is_some() ==> (self.data.m@.dom().contains(r.unwrap() as int) && forall|k: int| self.data.m@.dom().contains(k) ==> r.unwrap() as int <= k),
    //@body impl/MultiDeg/min_index
    pub fn max_index(&self) -> (r: Option<usize>)
        ensures r.is_none() <==> self.data.m@.dom() =~= Set::<int>::empty(),
            r.is_some() ==> (self.data.m@.dom().contains(r.unwrap() as int) && forall|k: int| self.data.m@.dom().contains(k) ==> k <= r.unwrap() as int),
    //@body impl/MultiDeg/max_index

    /// Index<usize>: the exponent of x_i (0 when absent)
    pub fn index(&self, i: usize) -> (r: &Z) requires self.wf() ensures r.v() == self.at(i as int),
    //@body impl/Index@MultiDeg/index

    pub fn zero() -> (r: MultiDeg) ensures r.wf(), r.reduced(), forall|k: int| r.at(k) == 0,
    //@body impl/Zero@MultiDeg/zero
    pub fn is_zero(&self) -> (r: bool) ensures self.reduced() ==> (r == (forall|k: int| self.at(k) == 0)),
    //@body impl/Zero@MultiDeg/is_zero
    //@+ post
    //@| if !__ret && self.reduced() {
    //@|     assert(exists|k: int| self.data.m@.dom().contains(k)) by { if forall|k: int| !self.data.m@.dom().contains(k) { assert(self.data.m@.dom() =~= Set::<int>::empty()); } }
    //@|     let k = choose|k: int| self.data.m@.dom().contains(k);
    //@|     assert(self.at(k) != 0);
    //@| }

    /// self += rhs : exponentwise sum (= product of monomials), and no zero exponent is left stored
    pub fn add_assign(&mut self, rhs: &MultiDeg)
        ensures final(self).reduced(), final(self)._zero == old(self)._zero,
            forall|k: int| final(self).at(k) == old(self).at(k) + rhs.at(k),
    //@body impl/AddAssign@MultiDeg/add_assign for_iter=1 loops=1 subst=I:Z
    //@+ loop 0 header
    //@| for (i, d) in rhs.iter()
    //@+ loop 0
    //@| invariant
    //@|     sorted_entries(__it0.es@, rhs.data.m@), 0 <= __it0.pos@ <= __it0.es@.len(),
    //@|     forall|k: int| data.at(k) == old(self).at(k) + (if seen(__it0.es@, __it0.pos@, k) { rhs.at(k) } else { 0 }),
    //@| ensures __it0.pos@ == __it0.es@.len(),
    //@| decreases __it0.es@.len() - __it0.pos@,
    //@+ loop 0 begin
    //@| let ghost p = __it0.pos@ - 1;
    //@| assert(*i as int == __it0.es@[p].0 && d.v() == __it0.es@[p].1);
    //@| assert(!seen(__it0.es@, p, *i as int));
    //@| assert(rhs.at(*i as int) == d.v());
    //@| assert forall|k: int| #[trigger] mat(m0, k) == data.at(k) by {}
    //@+ loop 0 begin-raw
    //@| let ghost m0 = data.m@;
    //@+ loop 0 end
    //@| assert forall|k: int| data.at(k) == old(self).at(k) + (if seen(__it0.es@, __it0.pos@, k) { rhs.at(k) } else { 0 }) by {
    //@|     assert(mat(m0, k) == old(self).at(k) + (if seen(__it0.es@, __it0.pos@ - 1, k) { rhs.at(k) } else { 0 }));
    //@|     if k == *i as int { assert(seen(__it0.es@, __it0.pos@, k)); }
    //@|     else { assert(seen(__it0.es@, __it0.pos@, k) == seen(__it0.es@, __it0.pos@ - 1, k)); }
    //@| }
    //@+ loop 0 after
    //@| assert forall|k: int| data.at(k) == old(self).at(k) + rhs.at(k) by {
    //@|     if rhs.data.m@.dom().contains(k) { let j = choose|j: int| 0 <= j < __it0.es@.len() && #[trigger] __it0.es@[j].0 == k; assert(seen(__it0.es@, __it0.pos@, k)); }
    //@| }

    /// self -= rhs : exponentwise difference
    pub fn sub_assign(&mut self, rhs: &MultiDeg)
        ensures final(self).reduced(), final(self)._zero == old(self)._zero,
            forall|k: int| final(self).at(k) == old(self).at(k) - rhs.at(k),
    //@body impl/SubAssign@MultiDeg/sub_assign for_iter=1 loops=1 subst=I:Z
    //@+ loop 0 header
    //@| for (i, d) in rhs.iter()
    //@+ loop 0
    //@| invariant
    //@|     sorted_entries(__it0.es@, rhs.data.m@), 0 <= __it0.pos@ <= __it0.es@.len(),
    //@|     forall|k: int| data.at(k) == old(self).at(k) - (if seen(__it0.es@, __it0.pos@, k) { rhs.at(k) } else { 0 }),
    //@| ensures __it0.pos@ == __it0.es@.len(),
    //@| decreases __it0.es@.len() - __it0.pos@,
    //@+ loop 0 begin
    //@| let ghost p = __it0.pos@ - 1;
    //@| assert(*i as int == __it0.es@[p].0 && d.v() == __it0.es@[p].1);
    //@| assert(!seen(__it0.es@, p, *i as int));
    //@| assert(rhs.at(*i as int) == d.v());
    //@| assert forall|k: int| #[trigger] mat(m0, k) == data.at(k) by {}
    //@+ loop 0 begin-raw
    //@| let ghost m0 = data.m@;
    //@+ loop 0 end
    //@| assert forall|k: int| data.at(k) == old(self).at(k) - (if seen(__it0.es@, __it0.pos@, k) { rhs.at(k) } else { 0 }) by {
    //@|     assert(mat(m0, k) == old(self).at(k) - (if seen(__it0.es@, __it0.pos@ - 1, k) { rhs.at(k) } else { 0 }));
    //@|     if k == *i as int { assert(seen(__it0.es@, __it0.pos@, k)); }
    //@|     else { assert(seen(__it0.es@, __it0.pos@, k) == seen(__it0.es@, __it0.pos@ - 1, k)); }
    //@| }
    //@+ loop 0 after
    //@| assert forall|k: int| data.at(k) == old(self).at(k) - rhs.at(k) by {
    //@|     if rhs.data.m@.dom().contains(k) { let j = choose|j: int| 0 <= j < __it0.es@.len() && #[trigger] __it0.es@[j].0 == k; assert(seen(__it0.es@, __it0.pos@, k)); }
    //@| }
    /// componentwise <=
    pub fn all_leq(&self, other: &MultiDeg) -> (r: bool) requires self.wf(), other.wf()
        ensures r == (forall|k: int| self.at(k) <= other.at(k)),
    //@body impl/MultiDeg/all_leq for_iter=1 loops=2 ring=1 index1=other,self
    //@+ loop 0 header
    //@| self.iter().all(|(&i0, d0)|
    //@+ loop 1 header
    //@| other.iter().all(|(&i1, d1)|
    //@+ loop 0
    //@| invariant
    //@|     sorted_entries(__it0.es@, self.data.m@), 0 <= __it0.pos@ <= __it0.es@.len(), self.wf(), other.wf(),
    //@|     __all0 ==> forall|j: int| 0 <= j < __it0.pos@ ==> (#[trigger] __it0.es@[j]).1 <= other.at(__it0.es@[j].0),
    //@|     !__all0 ==> exists|j: int| 0 <= j < __it0.es@.len() && (#[trigger] __it0.es@[j]).1 > other.at(__it0.es@[j].0),
    //@| ensures __all0 ==> __it0.pos@ == __it0.es@.len(),
    //@| decreases __it0.es@.len() - __it0.pos@,
    //@+ loop 0 after
    //@| if __all0 { assert forall|k: int| self.data.m@.dom().contains(k) implies self.at(k) <= other.at(k) by { let j = choose|j: int| 0 <= j < __it0.es@.len() && #[trigger] __it0.es@[j].0 == k; assert(__it0.es@[j].1 <= other.at(__it0.es@[j].0)); } }
    //@| else { let j = choose|j: int| 0 <= j < __it0.es@.len() && (#[trigger] __it0.es@[j]).1 > other.at(__it0.es@[j].0); assert(self.at(__it0.es@[j].0) > other.at(__it0.es@[j].0)); }
    //@+ loop 1
    //@| invariant
    //@|     sorted_entries(__it1.es@, other.data.m@), 0 <= __it1.pos@ <= __it1.es@.len(), self.wf(), other.wf(),
    //@|     __all1 ==> forall|j: int| 0 <= j < __it1.pos@ ==> self.at((#[trigger] __it1.es@[j]).0) <= __it1.es@[j].1,
    //@|     !__all1 ==> exists|j: int| 0 <= j < __it1.es@.len() && self.at((#[trigger] __it1.es@[j]).0) > __it1.es@[j].1,
    //@| ensures __all1 ==> __it1.pos@ == __it1.es@.len(),
    //@| decreases __it1.es@.len() - __it1.pos@,
    //@+ loop 1 after
    //@| if __all1 { assert forall|k: int| other.data.m@.dom().contains(k) implies self.at(k) <= other.at(k) by { let j = choose|j: int| 0 <= j < __it1.es@.len() && #[trigger] __it1.es@[j].0 == k; assert(self.at(__it1.es@[j].0) <= __it1.es@[j].1); } }
    //@| else { let j = choose|j: int| 0 <= j < __it1.es@.len() && self.at((#[trigger] __it1.es@[j]).0) > __it1.es@[j].1; assert(self.at(__it1.es@[j].0) > other.at(__it1.es@[j].0)); }

    pub fn all_geq(&self, other: &MultiDeg) -> (r: bool) requires self.wf(), other.wf()
        ensures r == (forall|k: int| other.at(k) <= self.at(k)),
    //@body impl/MultiDeg/all_geq

    /// total degree: the sum of all exponents
    pub fn total(&self) -> (r: Z)
        ensures forall|b: int| 0 <= b && below(self.data.m@, b) ==> r.v() == msum(self.data.m@, b),
    //@body impl/MultiDeg/total for_iter=1 loops=1 ring=1 subst=I:Z
    //@+ loop 0 header
    //@| self.iter().map(|(_, d)| d).fold(I::zero(),
    //@+ loop 0
    //@| invariant
    //@|     sorted_entries(__it0.es@, self.data.m@), 0 <= __it0.pos@ <= __it0.es@.len(),
    //@|     forall|j: int| 0 <= j < __it0.pos@ ==> (#[trigger] __it0.es@[j]).0 >= 0,
    //@|     forall|b: int| 0 <= b && (__it0.pos@ > 0 ==> __it0.es@[__it0.pos@ - 1].0 < b) && (__it0.pos@ < __it0.es@.len() ==> b <= __it0.es@[__it0.pos@].0)
    //@|         ==> __acc0.v() == #[trigger] msum(self.data.m@, b),
    //@| ensures __it0.pos@ == __it0.es@.len(),
    //@| decreases __it0.es@.len() - __it0.pos@,
    //@+ loop 0 end
    //@| let p = __it0.pos@ - 1; let es = __it0.es@; let m = self.data.m@;
    //@| assert(es[p].0 >= 0);
    //@| assert forall|b: int| 0 <= b && es[p].0 < b && (p + 1 < es.len() ==> b <= es[p + 1].0) implies __acc0.v() == #[trigger] msum(m, b) by {
    //@|     assert(res.v() == msum(m, es[p].0));
    //@|     assert(msum(m, es[p].0 + 1) == msum(m, es[p].0) + mat(m, es[p].0));
    //@|     assert forall|k: int| es[p].0 + 1 <= k < b implies !m.dom().contains(k) by {
    //@|         if m.dom().contains(k) { let j = choose|j: int| 0 <= j < es.len() && #[trigger] es[j].0 == k; if j <= p { if j < p { assert(es[j].0 < es[p].0); } } else { if p + 1 < j { assert(es[p + 1].0 < es[j].0); } } }
    //@|     }
    //@|     lemma_msum_gap(m, es[p].0 + 1, b);
    //@| }
    //@+ loop 0 before
    //@| assert forall|b: int| 0 <= b && (0 < __it0.es@.len() ==> b <= __it0.es@[0].0) implies 0 == #[trigger] msum(self.data.m@, b) by { lemma_msum_init(self.data.m@, __it0.es@, b); }

    /// lexicographic comparison of the exponent vectors (x_0 most significant)
    pub fn cmp_lex(&self, other: &MultiDeg) -> (r: Ordering) requires self.wf(), other.wf()
        ensures
            r == Ordering::Less ==> lex_lt(self.data.m@, other.data.m@),
            r == Ordering::Greater ==> lex_lt(other.data.m@, self.data.m@),
            r == Ordering::Equal ==> forall|k: int| self.at(k) == other.at(k),
    //@body impl/MonoOrd@MultiDeg/cmp_lex for_iter=1 loops=1 index1=other,self subst=I:Z
    //@+ loop 0 header
    //@| (i0..=i1).fold(Ordering::Equal,
    //@+ closure 0
    //@| -> (o: Ordering) ensures o == Ordering::Less <==> self.at(i as int) < other.at(i as int), o == Ordering::Equal <==> self.at(i as int) == other.at(i as int), o == Ordering::Greater <==> self.at(i as int) > other.at(i as int)
    //@+ loop 0
    //@| invariant
    //@|     self.wf(), other.wf(), i0 <= __it0 <= __hi0, __hi0 == i1, !__go0 ==> __it0 == __hi0,
    //@|     lexpart(self.data.m@, other.data.m@, i0 as int, (if __go0 { __it0 as int } else { __hi0 as int + 1 }), __acc0),
    //@+ loop 0 end
    //@| let a = self.data.m@; let b = other.data.m@; let done = (if __go0 { __it0 as int } else { __hi0 as int + 1 });
    //@| assert(done == i as int + 1);
    //@| if res == Ordering::Equal {
    //@|     if __acc0 == Ordering::Less { assert(mat(a, i as int) < mat(b, i as int)); }
    //@|     if __acc0 == Ordering::Greater { assert(mat(b, i as int) < mat(a, i as int)); }
    //@| }
    //@| assert(lexpart(a, b, i0 as int, done, __acc0));
    //@+ after-let i1
    //@| assert forall|k: int| (k < i0 || k > i1) implies self.at(k) == 0 && other.at(k) == 0 by {}
    //@+ post
    //@| let a = self.data.m@; let b = other.data.m@;
    //@| assert(lexpart(a, b, i0 as int, i1 as int + 1, __ret));
    //@| if __ret == Ordering::Less { let i = choose|i: int| i0 as int <= i < i1 as int + 1 && mat(a, i) < mat(b, i) && forall|j: int| i0 as int <= j < i ==> mat(a, j) == mat(b, j); assert(forall|j: int| j < i ==> mat(a, j) == mat(b, j)); }
    //@| if __ret == Ordering::Greater { let i = choose|i: int| i0 as int <= i < i1 as int + 1 && mat(b, i) < mat(a, i) && forall|j: int| i0 as int <= j < i ==> mat(a, j) == mat(b, j); assert(forall|j: int| j < i ==> mat(b, j) == mat(a, j)); }

    /// graded lexicographic comparison: total degree first, then lex
    pub fn cmp_grlex(&self, other: &MultiDeg) -> (r: Ordering) requires self.wf(), other.wf()
        ensures forall|bd: int| 0 <= bd && below(self.data.m@, bd) && below(other.data.m@, bd) ==> {
            let (ta, tb) = (msum(self.data.m@, bd), msum(other.data.m@, bd));
            &&& (r == Ordering::Less ==> (ta < tb || (ta == tb && lex_lt(self.data.m@, other.data.m@))))
            &&& (r == Ordering::Greater ==> (tb < ta || (ta == tb && lex_lt(other.data.m@, self.data.m@))))
            &&& (r == Ordering::Equal ==> forall|k: int| self.at(k) == other.at(k))
        },
    //@body impl/MonoOrd@MultiDeg/cmp_grlex subst=I:Z
    //@+ closure 0
    //@| -> (o: Ordering) ensures o == Ordering::Less ==> lex_lt(self.data.m@, other.data.m@), o == Ordering::Greater ==> lex_lt(other.data.m@, self.data.m@), o == Ordering::Equal ==> forall|k: int| self.at(k) == other.at(k)
}
pub open spec fn mat(m: Map<int, int>, k: int) -> int { if m.dom().contains(k) { m[k] } else { 0 } }
/// key k is among the first n entries
pub open spec fn seen(es: Seq<(int, int)>, n: int, k: int) -> bool { exists|j: int| 0 <= j < n && j < es.len() && #[trigger] es[j].0 == k }

/// ASSUMED std contract: Ordering::then_with (usize::min / usize::max: vstd's specification)
pub assume_specification<F: FnOnce() -> Ordering>[ Ordering::then_with ](o: Ordering, f: F) -> (r: Ordering)
    requires o == Ordering::Equal ==> f.requires(()),
    ensures o != Ordering::Equal ==> r == o, o == Ordering::Equal ==> f.ensures((), r);

/// every key is below b
pub open spec fn below(m: Map<int, int>, b: int) -> bool { forall|k: int| m.dom().contains(k) ==> 0 <= k < b }
/// sum of the exponents with index in [0, n)
pub open spec fn msum(m: Map<int, int>, n: int) -> int decreases n { if n <= 0 { 0 } else { msum(m, n - 1) + mat(m, n - 1) } }
pub proof fn lemma_msum_init(m: Map<int, int>, es: Seq<(int, int)>, b: int)
    requires sorted_entries(es, m), 0 <= b, 0 < es.len() ==> b <= es[0].0
    ensures msum(m, b) == 0
{
    assert forall|k: int| 0 <= k < b implies !m.dom().contains(k) by {
        if m.dom().contains(k) { let j = choose|j: int| 0 <= j < es.len() && #[trigger] es[j].0 == k; if 0 < j { assert(es[0].0 < es[j].0); } }
    }
    lemma_msum_gap(m, 0, b);
}
pub proof fn lemma_msum_gap(m: Map<int, int>, a: int, b: int)
    requires 0 <= a <= b, forall|k: int| a <= k < b ==> !m.dom().contains(k)
    ensures msum(m, b) == msum(m, a)
    decreases b - a
{ if a < b { lemma_msum_gap(m, a, b - 1); } }
/// strict lexicographic order on exponent vectors: the first index where they differ decides
pub open spec fn lex_lt(a: Map<int, int>, b: Map<int, int>) -> bool {
    exists|i: int| mat(a, i) < mat(b, i) && forall|j: int| j < i ==> mat(a, j) == mat(b, j)
}
/// what the fold has established after scanning the indices [lo, hi)
pub open spec fn lexpart(a: Map<int, int>, b: Map<int, int>, lo: int, hi: int, o: Ordering) -> bool {
    &&& (o == Ordering::Equal ==> forall|j: int| lo <= j < hi ==> mat(a, j) == mat(b, j))
    &&& (o == Ordering::Less ==> exists|i: int| lo <= i < hi && mat(a, i) < mat(b, i) && forall|j: int| lo <= j < i ==> mat(a, j) == mat(b, j))
    &&& (o == Ordering::Greater ==> exists|i: int| lo <= i < hi && mat(b, i) < mat(a, i) && forall|j: int| lo <= j < i ==> mat(a, j) == mat(b, j))
}

// ---- order axioms (pure lemmas over exponent vectors) ----
pub open spec fn veq(a: Map<int, int>, b: Map<int, int>) -> bool { forall|k: int| mat(a, k) == mat(b, k) }
/// s = a + c as exponent vectors (the product of the monomials)
pub open spec fn vsum(s: Map<int, int>, a: Map<int, int>, c: Map<int, int>) -> bool { forall|k: int| mat(s, k) == mat(a, k) + mat(c, k) }
pub proof fn lemma_lex_asym(a: Map<int, int>, b: Map<int, int>) requires lex_lt(a, b) ensures !lex_lt(b, a), !veq(a, b) {
    let i = choose|i: int| mat(a, i) < mat(b, i) && forall|j: int| j < i ==> mat(a, j) == mat(b, j);
    if lex_lt(b, a) {
        let i2 = choose|i2: int| mat(b, i2) < mat(a, i2) && forall|j: int| j < i2 ==> mat(b, j) == mat(a, j);
        if i < i2 { assert(mat(b, i) == mat(a, i)); } else if i2 < i { assert(mat(a, i2) == mat(b, i2)); }
    }
    if veq(a, b) { assert(mat(a, i) == mat(b, i)); }
}
pub proof fn lemma_lex_trans(a: Map<int, int>, b: Map<int, int>, c: Map<int, int>) requires lex_lt(a, b), lex_lt(b, c) ensures lex_lt(a, c) {
    let i = choose|i: int| mat(a, i) < mat(b, i) && forall|j: int| j < i ==> mat(a, j) == mat(b, j);
    let i2 = choose|i2: int| mat(b, i2) < mat(c, i2) && forall|j: int| j < i2 ==> mat(b, j) == mat(c, j);
    let w = if i <= i2 { i } else { i2 };
    assert(mat(a, w) < mat(c, w)) by { if i < i2 { assert(mat(b, i) == mat(c, i)); } else if i2 < i { assert(mat(a, i2) == mat(b, i2)); } }
    assert forall|j: int| j < w implies mat(a, j) == mat(c, j) by { assert(mat(a, j) == mat(b, j)); assert(mat(b, j) == mat(c, j)); }
}
/// compatibility with multiplication: a < b  <==>  a + c < b + c
pub proof fn lemma_lex_compat(a: Map<int, int>, b: Map<int, int>, c: Map<int, int>, ac: Map<int, int>, bc: Map<int, int>)
    requires vsum(ac, a, c), vsum(bc, b, c)
    ensures lex_lt(a, b) <==> lex_lt(ac, bc)
{
    if lex_lt(a, b) {
        let i = choose|i: int| mat(a, i) < mat(b, i) && forall|j: int| j < i ==> mat(a, j) == mat(b, j);
        assert(mat(ac, i) < mat(bc, i));
        assert forall|j: int| j < i implies mat(ac, j) == mat(bc, j) by { assert(mat(a, j) == mat(b, j)); }
    }
    if lex_lt(ac, bc) {
        let i = choose|i: int| mat(ac, i) < mat(bc, i) && forall|j: int| j < i ==> mat(ac, j) == mat(bc, j);
        assert(mat(a, i) < mat(b, i));
        assert forall|j: int| j < i implies mat(a, j) == mat(b, j) by { assert(mat(ac, j) == mat(bc, j)); }
    }
}
/// total degree is additive (so graded lex is compatible with multiplication as well)
pub proof fn lemma_msum_add(s: Map<int, int>, a: Map<int, int>, c: Map<int, int>, n: int)
    requires vsum(s, a, c) ensures msum(s, n) == msum(a, n) + msum(c, n) decreases n
{ if n > 0 { lemma_msum_add(s, a, c, n - 1); } }
/// totality: two exponent vectors supported in [0, n) are equal or lex-comparable
pub proof fn lemma_lex_total(a: Map<int, int>, b: Map<int, int>, n: int)
    requires 0 <= n, below(a, n), below(b, n)
    ensures veq(a, b) || lex_lt(a, b) || lex_lt(b, a)
{
    lemma_first_diff(a, b, n, 0);
}
proof fn lemma_first_diff(a: Map<int, int>, b: Map<int, int>, n: int, lo: int)
    requires 0 <= lo <= n, below(a, n), below(b, n), forall|j: int| j < lo ==> mat(a, j) == mat(b, j)
    ensures veq(a, b) || lex_lt(a, b) || lex_lt(b, a)
    decreases n - lo
{
    if lo == n { assert forall|k: int| mat(a, k) == mat(b, k) by { if k >= n { } } }
    else if mat(a, lo) < mat(b, lo) { }
    else if mat(b, lo) < mat(a, lo) { assert forall|j: int| j < lo implies mat(b, j) == mat(a, j) by { assert(mat(a, j) == mat(b, j)); } }
    else { lemma_first_diff(a, b, n, lo + 1); }
}

/// the last clause of `reduce` follows from the two before it (machine-checked)
pub proof fn lemma_reduce_at(a: Map<int, int>, b: Map<int, int>)
    requires
        forall|k: int| b.dom().contains(k) <==> (a.dom().contains(k) && a[k] != 0),
        forall|k: int| b.dom().contains(k) ==> b[k] == a[k],
    ensures forall|k: int| (if b.dom().contains(k) { b[k] } else { 0 }) == (if a.dom().contains(k) { a[k] } else { 0 }),
{}

} // verus!
fn main() {}
