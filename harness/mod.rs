// Harness modules shared (via #[path]) between /verif/kani/* and /verif/native.
pub mod src;

#[macro_export]
macro_rules! harness_table {
    ($tname:ident : $( $name:ident $( [unwind $u:literal] )? ),* $(,)?) => {
        #[cfg(kani)]
        mod kani_proofs {
            use super::*;
            $( #[kani::proof] $( #[kani::unwind($u)] )? fn $name() { let mut s = Src::new(); let _ = super::$name(&mut s); } )*
        }
        #[cfg(not(kani))]
        pub const $tname: &[(&str, fn(&mut Src) -> R)] = &[ $( (stringify!($name), $name as fn(&mut Src) -> R) ),* ];
    };
}
#[macro_export]
macro_rules! harness_table_should_panic {
    ($tname:ident : $( $name:ident $( [unwind $u:literal] )? ),* $(,)?) => {
        #[cfg(kani)]
        mod kani_should_panic {
            use super::*;
            $( #[kani::proof] #[kani::should_panic] $( #[kani::unwind($u)] )? fn $name() { let mut s = Src::new(); let _ = super::$name(&mut s); } )*
        }
        #[cfg(not(kani))]
        pub const $tname: &[(&str, fn(&mut Src) -> R)] = &[ $( (stringify!($name), $name as fn(&mut Src) -> R) ),* ];
    };
}

#[cfg(feature = "core")]
pub mod bitseq;
#[cfg(feature = "core")]
pub mod ring;
#[cfg(feature = "core")]
pub mod mono;
#[cfg(feature = "core")]
pub mod xing;
#[cfg(feature = "kh")]
pub mod khgen;
#[cfg(feature = "kh")]
pub mod cob;
#[cfg(feature = "kh")]
pub mod miscdiv;
#[cfg(feature = "kh")]
pub mod snfh;
#[cfg(feature = "kh")]
pub mod hcalch;
#[cfg(feature = "kh")]
pub mod pivh;

/// (table, should_panic) for the native runner
#[cfg(not(kani))]
pub fn all_tables() -> Vec<(&'static [(&'static str, fn(&mut src::Src) -> src::R)], bool)> {
    let mut v: Vec<(&'static [(&'static str, fn(&mut src::Src) -> src::R)], bool)> = vec![];
    #[cfg(feature = "core")]
    { v.push((bitseq::BITSEQ, false)); v.push((bitseq::BITSEQ_REJECT, true)); v.push((ring::RING, false)); v.push((mono::MONO, false)); v.push((xing::XING, false)); v.push((xing::XING_REJECT, true)); }
    #[cfg(feature = "kh")]
    { v.push((khgen::KHGEN, false)); v.push((cob::COB, false)); v.push((miscdiv::MISC, false)); v.push((snfh::SNF, false)); v.push((hcalch::HCALC, false)); v.push((pivh::PIV, false)); }
    v
}
